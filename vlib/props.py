"""Which units decide which property, and what each property's check trusts."""

COMMON_TB = [
    "Kani 0.68 / CBMC 6.11 / CaDiCaL: Rust MIR semantics as Kani encodes them (atomics are sequentially consistent, one thread)",
    "rustc (Kani's pinned toolchain) front end",
    "the /verif extractor/injector scripts (text matchers; they copy real source text byte-for-byte)",
]

PROPS = {
    "C05": {
        "units": ["rc"],
        "trusted_base": COMMON_TB + [
            "ghost bookkeeping in units/rc/harness.rs (refs_me, refs_others, pending) and the rely relation `interfere()`",
        ],
        "assumptions": [
            "Cell<Option<ThreadId>> / Cell<u32> fields are read by non-owner threads without synchronisation: sequential semantics assumed for them (data races are invisible to Kani)",
            "memory orderings weaker than SeqCst are not modelled",
            "CAS retry loops: one failed compare_exchange followed by a successful one stands for any number of retries (the loop bodies carry no state except `old`; read off the code, not proved)",
            "fewer than 2^29-2 references / |shared counter| < 2^29-2 in every pre-state (the code asserts on the 30-bit range)",
            "thread ids are not reused; only the owner thread processes its merge queue (QueueHandle's dashmap bookkeeping is not verified)",
            "unsafe allocation / layout code (try_allocate, dealloc, ptr_from_data_ptr, slices) is not verified",
            "induction over schedules (every atomic step preserves I => every interleaving does) is a paper argument over the per-step obligations",
        ],
        "explanation": "per-operation contracts on the real steel-rc crate: each atomic step re-establishes the counting invariant I from any state satisfying it, under arbitrary interference",
    },
    "C10": {
        "units": ["num", "vm"],
        "trusted_base": COMMON_TB + [
            "units/num/prelude.rs: reduced SteelVal (same variant names/payloads), Gc as owning pointer, BigInt as exact i128 model (assumed contract of num-bigint), BigRational = real num_rational::Ratio over that model, error macros without message text",
            "Rust's `/` and `%` on isize are truncated division (division specs are stated relative to them)",
            "real num-traits / num-integer / num-rational code is executed as is",
        ],
        "assumptions": [
            "bignum operands explored within +-2^100 (i128 model; overflow of the model is a reported failure, not silently ignored)",
            "division family: exact results only on a boundary table (bounded), zero-divisor and panic-freedom on the full domain",
            "rational / bigrational / complex arms, number<->string conversion, expt, gcd/lcm (Scheme level), exact-integer-sqrt, opcode arms inlined in VmCore::vm and JIT fast paths are NOT covered",
            "known finding: fixnum/flonum ordering beyond 2^53 (listed in known_findings.txt)",
        ],
        "explanation": "numeric kernels of steel-core extracted verbatim and checked against mathematical-integer specs with Kani",
    },
    "C07": {
        "units": ["num", "vm", "pers", "unw"],
        "trusted_base": COMMON_TB + ["units/num/prelude.rs (see C10)", "units/unw/prelude_extra.rs (+ units/vm/prelude.rs): `VmCore::vm` (the interpreter loop) as the ghost callee of the unwinding loop - records the engine state at every entry, fails or succeeds as scripted, a successful evaluation pops the frames it owns; StackFrameAttachments with its two real fields (checked against the real struct); continuation marks recorded, not closed; error -> value conversion as a marker value",],
        "assumptions": [
            "only panic-freedom of the numeric built-ins on every scalar argument kind and magnitude is decided; arbitrary source text, native stack overflow and engine recovery after errors are NOT covered",
            "collection-valued arguments (lists, vectors, strings) are not generated",
        ],
        "explanation": "panic-freedom obligations (Rust overflow / division / shift / unwrap / unreachable are MIR assertions checked by Kani) for numeric built-ins on all scalar kinds",
    },
    "C20": {
        "units": ["num", "nurs", "regfn", "lent"],
        "trusted_base": COMMON_TB + ["units/num/prelude.rs (see C10)", "extractor edit D5: textual instantiation of from_f64!/from_for_isize!/try_from_impl!",
                                      "units/lent/prelude.rs: parking_lot RwLock / Mutex as RefCell-backed cells with the same guard API, reduced SteelVal, CustomReference / ReferenceCustomType traits restated; std Arc / Weak / AtomicBool / core::any executed as they are"],
        "assumptions": [
            "containers, strings, registered structs are NOT covered; of the lent-reference half: the nursery's stack discipline (free_n / free_all / drain) and, for MUTABLE lent references, the use-time check (weak upgrade fails after the call; child-borrow flag and borrow count exclude a mutable use) and read-only lent references (ReadOnlyBorrowedObject / ReadOnlyTemporary: usable during the call, an error value after it) are decided - the register_fn wrappers that set and clear the flags and LifetimeGuard are NOT covered",
            "RegisterFn wrappers: the two macro families impl_register_fn! / impl_register_fn_self! at arities 1, 2, 3 and 16; the async / context / rest-args wrappers and the #[steel_derive::function] generated checks are NOT covered",
        ],
        "explanation": "integer/float/char/bool/unit/option conversions at the host boundary, full input domain",
    },
    "C15": {
        "units": ["genv", "stw", "estk", "roots", "intr"],
        "trusted_base": COMMON_TB + [
            "units/genv/prelude.rs: the global table as a 4-slot table that logs its updates (contract of SharedVectorWrapper proved in unit env), Env::{drain_env, default_env, update_env} and Synchronizer::{stop_threads, resume_threads, call_per_ctx} as ghost recorders over two other thread contexts, enter_safepoint runs its closure once",
            "units/roots/prelude_mark.rs (see C04): Synchronizer::{stop_threads, enumerate_stacks, resume_threads} and the marker as ghost recorders",
"units/estk/prelude.rs: the marker context as a ghost recorder, AtomicCell / Mutex as cells, thread handles as custom values with a downcast, reduced SteelThread with the four root-holding fields; std Arc / Weak executed as they are",
            "units/stw/prelude.rs: AtomicCell as a plain cell, the mutex around the thread list as a cell, thread handles as custom values with a downcast, Thread::unpark as a ghost counter; ThreadState / ThreadStateController extracted verbatim",
            "units/intr/prelude.rs (see C17): AtomicCell as a plain cell, std::thread::park shadowed by a ghost stub",
        ],
        "assumptions": [
            "ONE thread's view only: Kani has no threads; atomics are sequentially consistent; the other threads are ghost contexts",
            "that stop_threads / call_per_ctx / enumerate_stacks wait until every other thread has parked and published itself (the handshake), threads blocked in primitives and forked thread handles are NOT decided - the core of the property",
        ],
        "explanation": "protocol order of the world-stopping operations (global define / set!, full collection) and agreement of all threads' global tables afterwards",
    },
    "C06": {
        "units": ["glob", "env", "cset", "genv"],
        "trusted_base": COMMON_TB + [
            "units/genv/prelude.rs: the global table as a 4-slot table that logs its updates (contract of SharedVectorWrapper proved in unit env), Env::{drain_env, default_env, update_env} and Synchronizer::{stop_threads, resume_threads, call_per_ctx} as ghost recorders over two other thread contexts, enter_safepoint runs its closure once",
"units/cset/prelude.rs: reduced AST (a sub-expression is a leaf or an identifier; node structs with the real field names), quickscope::ScopeSet / FxHashSet / SmallVec as exact finite models, `CollectSet::visit` as the callee contract of the recursive visitor (records sub-expression and scope state, leaves the scope stack unchanged)",
            "units/env/prelude.rs: shared_vector::AtomicSharedVector as a Vec with the same API (assumed contract; copy-on-write between threads not modelled), reduced SteelVal",
            "units/glob/prelude.rs: InternedString as a u32 newtype, FxHashMap/HashSet as exact finite map/set models (assumed contract of hashbrown), reduced SteelVal/ByteCodeLambda, Heap no-ops, visitor loop reduced to the Closure arm",
            "the real steel-gen crate (OpCode) is compiled as is; the list of global-index opcodes is cross-checked textually against VmCore::vm every run",
        ],
        "assumptions": [
            "the walk reaching every live closure through the other 35 value kinds (visitor completeness) is NOT covered",
            "slot indices embedded in JIT-generated machine code, module tables and the engine-level trigger/rollback call sites are NOT covered",
            "CALLPRIMITIVETAIL and READLOCALnCALLGLOBAL are outside the precondition: the compiler does not emit them in this revision (re-checked every run)",
        ],
        "explanation": "SymbolMap operations and the global-slot recycler's bytecode scan under contract; sequences bounded (maps/sets are loop-based models)",
    },
    "C04": {
        "units": ["heap", "heapo", "roots", "pmark", "estk"],
        "trusted_base": COMMON_TB + [
            "units/heap/prelude.rs: StandardShared=Arc / WeakShared=Weak (as crate::gc defines them for `sync`), MutContainer as RefCell with read()/write(), reduced SteelVal, channel stubs, log no-op",
            "std Arc/Weak/RefCell/Vec are executed as compiled by Kani",
            "units/roots/prelude_mark.rs: MarkAndSweepContext::push_back, MARKER.mark, Synchronizer::{stop_threads, enumerate_stacks, resume_threads} and Roots::increment_generation as ghost recorders; the marker's work list (a Vec in the real struct) as a 24-slot array with push and a slice view; GLOBAL_ROOTS as a lock around one Roots value",
"units/estk/prelude.rs: the marker context as a ghost recorder, AtomicCell / Mutex as cells, thread handles as custom values with a downcast, reduced SteelThread with the four root-holding fields; std Arc / Weak executed as they are",
            "units/pmark/prelude.rs: payload types of the value kinds (real field names), im collections as sequences with the same iteration API, push_back / save of the by-reference marker as ghost recorders, reduced SteelVal",
            "units/roots/prelude_vm.rs: Heap::{allocate, allocate_vector, allocate_vector_iter, collection} as ghost recorders of the root sets they are handed; SteelThread with the root-holding fields only (checked against the real struct); enter_safepoint runs its closure once",
        ],
        "assumptions": [
            "root enumeration is decided for Heap::mark (every root class it is handed reaches the marker) and for the VM call sites make_box / make_mutable_vector / make_mutable_vector_iter / gc_collect / new_box_handler / the `box` primitive (they hand over the whole operand stack, every frame, all globals, all thread-local slots); the by-reference marker that runs in `sync` builds: continuation, container, closure, transducer, reducer and syntax-object arms (unit pmark); Synchronizer::enumerate_stacks (unit estk: a parked or forked thread contributes its stack, every frame's captures, the current frame's captures and its thread-local slots) for threads that HAVE published themselves - the wait for that is not decided; values that live only in Rust locals of native functions, the list / custom-type / heap-handle arms of the by-reference marker and its worker threads are NOT covered",
            "free lists of at most 3 slots; the growth path inside allocate (EXTEND_CHUNK = 25600 slots) is out of CBMC's reach: allocate is proved for `a free slot remains`, grow_by separately",
        ],
        "explanation": "free-list allocate / weak collection / recount / grow and the mark-bit protocol under contract (bounded sizes)",
    },
    "C19": {
        "units": ["heap", "heapo", "glob"],
        "trusted_base": COMMON_TB + [
            "units/heap/prelude.rs: StandardShared=Arc / WeakShared=Weak (as crate::gc defines them for `sync`), MutContainer as RefCell with read()/write(), reduced SteelVal, channel stubs, log no-op",
            "std Arc/Weak/RefCell/Vec are executed as compiled by Kani",
        ],
        "assumptions": [
            "'eventually' (liveness) and memory boundedness of whole programs are NOT decided; only: unreferenced slots are freed by a weak collection, counts are exact after recount, marks are reset, cycles terminate marking",
            "free lists of at most 3 slots",
        ],
        "explanation": "reclamation side of the same free-list contracts",
    },
    "C09": {
        "units": ["vm", "anl", "cgen", "pgm", "apl"],
        "trusted_base": COMMON_TB + [
"units/apl/prelude_extra.rs (+ units/vm/prelude.rs with five function-valued SteelVal variants): new_handle_tail_call_closure / handle_function_call_closure as callee contracts (their own contracts are unit vm) that record closure, argument count, ip and operand stack; List::cons / iter as an exact sequence model",
            "units/pgm/prelude.rs: Instruction with its three real fields, InternedString as a number + ghost flag `text starts with #%prim.`, the interned symbol statics as pairwise distinct numbers; real steel-gen OpCode, u24 extracted",
            "units/cgen/prelude.rs: reduced AST, Analysis maps as association lists, std Vec inside code_gen.rs as a typed 16-slot array (assumed contract of Vec), `CodeGenerator::visit` as ghost callee appending a concrete number of marker instructions, specialize_* helpers return None (jit2 build; checked textually), println! no-op; u24 / LabeledInstruction / CallKind / SemanticInformation / ... extracted verbatim, real steel-gen OpCode",
            "units/anl/prelude.rs: reduced AST (real field names; accessors extracted verbatim from steel-parser), AnalysisPass with the real traversal fields (list checked against the real struct every run) + ghost event log, quickscope::ScopeMap / FxHashMap / SmallVec / ThinVec as exact finite models; `self.visit` is the CALLEE CONTRACT of the recursive visitor (records the state it is called in; returns with tail flag, escape flag, stack offset and context depth unchanged, defining context unchanged or cleared); visit_define_without_body abstracted",
            "units/vm/prelude.rs: VmCore/SteelThread with only the touched fields (field lists checked against the real structs every run), frame stack with a ghost count of older frames, reduced SteelVal/ByteCodeLambda, RootedInstructions as a raw slice pointer, message-less stop!",
            "real steel-gen OpCode; u24/DenseInstruction/StackFrame/STACK_LIMIT extracted verbatim",
        ],
        "assumptions": [
            "which call sites are classified as tail calls is decided per visitor function of analysis.rs (unit anl: if / begin / let / define / set! / application) against the visitor's contract; visit_lambda_function (body analysed in tail position, depth +1) is ASSUMED to satisfy that contract (read off the code: every assignment to the traversal fields is paired with its restore); visit_atom is under contract since round 2; how code_gen.rs turns the recorded call kind into TAILCALL / TCOJMP, the JIT tier's own tail-call paths and heap-side memory are NOT covered",
            "per-call frame reuse implies a constant frame stack by induction over iterations (paper step)",
            "operand stacks of 5 values, arity <= 2 (Vec::drain under CBMC)",
        ],
        "explanation": "frame-reuse contract of the interpreter's tail-call handlers and the depth-limit check",
    },
    "C01": {
        "units": ["vm", "anl", "cev", "cgen", "cset", "num", "unw", "pgm", "apl", "genv"],
        "trusted_base": COMMON_TB + [
            "units/genv/prelude.rs: the global table as a 4-slot table that logs its updates (contract of SharedVectorWrapper proved in unit env), Env::{drain_env, default_env, update_env} and Synchronizer::{stop_threads, resume_threads, call_per_ctx} as ghost recorders over two other thread contexts, enter_safepoint runs its closure once",
"units/apl/prelude_extra.rs (+ units/vm/prelude.rs with five function-valued SteelVal variants): new_handle_tail_call_closure / handle_function_call_closure as callee contracts (their own contracts are unit vm) that record closure, argument count, ip and operand stack; List::cons / iter as an exact sequence model",
            "units/pgm/prelude.rs: Instruction with its three real fields, InternedString as a number + ghost flag `text starts with #%prim.`, the interned symbol statics as pairwise distinct numbers; real steel-gen OpCode, u24 extracted",
            "units/cgen/prelude.rs: reduced AST, Analysis maps as association lists, std Vec inside code_gen.rs as a typed 16-slot array (assumed contract of Vec), `CodeGenerator::visit` as ghost callee appending a concrete number of marker instructions, specialize_* helpers return None (jit2 build; checked textually), println! no-op; u24 / LabeledInstruction / CallKind / SemanticInformation / ... extracted verbatim, real steel-gen OpCode",
"units/cset/prelude.rs: reduced AST (a sub-expression is a leaf or an identifier; node structs with the real field names), quickscope::ScopeSet / FxHashSet / SmallVec as exact finite models, `CollectSet::visit` as the callee contract of the recursive visitor (records sub-expression and scope state, leaves the scope stack unchanged)",
            "units/cev/prelude.rs: reduced AST, ConstantEnv as a ghost (one symbolic binding, lookups/unbinds counted), FxHashSet as a 2-slot set model, `ConstantEvaluator::visit` as ghost callee returning its argument; TokenType / Paren / ParenMod / InternedNumber / OptLevel / SteelVal::is_truthy / If::new / the ConstantEvaluator struct are extracted verbatim",
            "units/anl/prelude.rs: reduced AST (real field names; accessors extracted verbatim from steel-parser), AnalysisPass with the real traversal fields (list checked against the real struct every run) + ghost event log, quickscope::ScopeMap / FxHashMap / SmallVec / ThinVec as exact finite models; `self.visit` is the CALLEE CONTRACT of the recursive visitor (records the state it is called in; returns with tail flag, escape flag, stack offset and context depth unchanged, defining context unchanged or cleared); visit_define_without_body abstracted",
            "units/vm/prelude.rs: VmCore/SteelThread with only the touched fields (field lists checked against the real structs every run), frame stack with a ghost count of older frames, reduced SteelVal/ByteCodeLambda, RootedInstructions as a raw slice pointer, message-less stop!",
            "real steel-gen OpCode; u24/DenseInstruction/StackFrame/STACK_LIMIT extracted verbatim",
            "units/unw/prelude_extra.rs (+ units/vm/prelude.rs): `VmCore::vm` (the interpreter loop) as the ghost callee of the unwinding loop - records the engine state at every entry, fails or succeeds as scripted, a successful evaluation pops the frames it owns; StackFrameAttachments with its two real fields (checked against the real struct); continuation marks recorded, not closed; error -> value conversion as a marker value",
        ],
        "assumptions": [
            "only local encoding / stack-slot steps are decided: operand encoding (u24), call set-up (exactly the arguments written at the call site, rest-argument collection), local read / move / assign; the 15 AST passes, code generation, peephole rewrites and the interpreter match as a whole are NOT covered",
        ],
        "explanation": "call set-up and local-variable slot handlers of VmCore under contract",
    },
    "C17": {
        "units": ["intr", "unw"],
        "trusted_base": COMMON_TB + [
"units/unw/prelude_extra.rs (+ units/vm/prelude.rs): `VmCore::vm` (the interpreter loop) as the ghost callee of the unwinding loop - records the engine state at every entry, fails or succeeds as scripted, a successful evaluation pops the frames it owns; StackFrameAttachments with its two real fields (checked against the real struct); continuation marks recorded, not closed; error -> value conversion as a marker value",
            "units/intr/prelude.rs: AtomicCell as a plain cell, reduced SteelThread/Synchronizer/VmCore (Synchronizer field list checked against the real struct), std::thread::park shadowed by a ghost stub that resumes after a fixed number of parks",
        ],
        "assumptions": [
            "that every loop of every tier polls safepoint_or_interrupt (interpreter loop head, native-compiled code, transducers, higher-order primitives) and the latency bound are NOT decided - that is most of the property",
            "single thread: the flag protocol is decided for the polling thread given the flags; interleavings of the two relaxed stores in interrupt() with a poll are not explored (C15/C16 territory)",
        ],
        "explanation": "flag protocol of interruption: interrupt/resume transitions, the poll's reaction to every flag combination, safepoint wait-loop exit",
    },
    "C12": {
        "units": ["span", "lex", "num"],
        "trusted_base": ["Verus 0.2026.09.13 / Z3", "the /verif extractor/injector scripts (they copy real source text byte-for-byte)", "SourceId restated as a u32 newtype"],
        "assumptions": [
            "only the source-location arithmetic (Span) is decided: every derived span is the hull / concatenation of its arguments, so it lies inside the text when they do; that the LEXER produces spans inside the text, totality of the reader and the write/read round trip are NOT decided in this revision",
            "Span::width requires start <= end (caller obligation, not checked at call sites)",
        ],
        "explanation": "span.rs under Verus with a loop invariant (unbounded number of spans)",
    },
    "C03": {
        "units": ["rc", "pers", "anl"],
        "trusted_base": COMMON_TB + [
            "units/pers/prelude.rs: Gc = std::rc::Rc (get_mut is Some iff sole reference - the contract proved for BiasedRc::get_mut/make_mut in unit rc), im/imbl collections as exact finite map/set/sequence models, reduced SteelVal",
            "units/anl/prelude.rs (see C09): the analysis pass's variable-read visitor",
        ],
        "assumptions": [
            "kernel 1 (the uniqueness oracle: RcBox::has_unique_ref, BiasedRc::get_mut / make_mut / try_unwrap) is decided by the C05 check on the real steel-rc crate and re-run here",
            "of the compiler's last-use analysis only the marking step is decided (AnalysisPass::visit_atom: every read - local, captured from the stack or from an enclosing closure - becomes the last use of the binding in scope); the pass that turns last uses into MOVEREADLOCAL, im-lists internals, struct field updates and threads are NOT covered",
            "collections of 2 entries with fixnum contents",
        ],
        "explanation": "uniqueness oracle (real steel-rc) + the primitives that mutate in place under it (verbatim extraction)",
    },
}
