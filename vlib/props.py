"""Which units decide which property, and what each property's check trusts."""

COMMON_TB = [
    "Kani 0.68 / CBMC 6.11 / CaDiCaL: Rust MIR semantics as Kani encodes them (atomics are sequentially consistent, one thread)",
    "rustc (Kani's pinned toolchain) front end",
    "the /verif extractor/injector scripts (text matchers; they copy real source text byte-for-byte)",
]

PROPS = {
    "C05": {
        "units": ["rc"],
        "trusted_base": COMMON_TB + [
            "ghost bookkeeping in units/rc/harness.rs (refs_me, refs_others, pending) and the rely relation `interfere()`",
        ],
        "assumptions": [
            "Cell<Option<ThreadId>> / Cell<u32> fields are read by non-owner threads without synchronisation: sequential semantics assumed for them (data races are invisible to Kani)",
            "memory orderings weaker than SeqCst are not modelled",
            "CAS retry loops: one failed compare_exchange followed by a successful one stands for any number of retries (the loop bodies carry no state except `old`; read off the code, not proved)",
            "fewer than 2^29-2 references / |shared counter| < 2^29-2 in every pre-state (the code asserts on the 30-bit range)",
            "thread ids are not reused; only the owner thread processes its merge queue (QueueHandle's dashmap bookkeeping is not verified)",
            "unsafe allocation / layout code (try_allocate, dealloc, ptr_from_data_ptr, slices) is not verified",
            "induction over schedules (every atomic step preserves I => every interleaving does) is a paper argument over the per-step obligations",
        ],
        "explanation": "per-operation contracts on the real steel-rc crate: each atomic step re-establishes the counting invariant I from any state satisfying it, under arbitrary interference",
    },
}
