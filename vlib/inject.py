"""Insert contract attribute lines in place, immediately above a named function header.

An anchor is the exact text of the function header (up to, not including, the body brace),
whitespace-normalised. It must occur exactly once, otherwise AnchorLost (exit 2)."""
import re

from .common import AnchorLost


def _norm(s):
    return re.sub(r"\s+", " ", s).strip()


def find_header(text, header):
    """Return the index of the start of the line on which `header` begins. `header` is matched
    with flexible whitespace."""
    toks = [re.escape(t) for t in re.split(r"\s+", header.strip())]
    pat = re.compile(r"\s*".join(toks))
    hits = [m for m in pat.finditer(text)]
    # ignore matches in line comments
    real = []
    for m in hits:
        ls = text.rfind("\n", 0, m.start()) + 1
        if text[ls:m.start()].lstrip().startswith("//"):
            continue
        real.append(m)
    if len(real) != 1:
        raise AnchorLost(f"anchor `{_norm(header)}` found {len(real)} times (need exactly 1)")
    m = real[0]
    return text.rfind("\n", 0, m.start()) + 1


def inject_attrs(text, header, attr_lines):
    at = find_header(text, header)
    line_end = text.find("\n", at)
    indent = re.match(r"\s*", text[at:line_end]).group(0)
    ins = "".join(f"{indent}{a}\n" for a in attr_lines)
    return text[:at] + ins + text[at:]
