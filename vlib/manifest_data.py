BASELINE = ("cd /repo && cargo nextest run --workspace --no-fail-fast --tool-config-file pb:/w/lib/nextest.toml "
            "--profile pb --test-threads 8 --offline || cargo test --workspace --no-fail-fast --offline")

CHECKS = {
    "C05": dict(
        category="proof",
        text="Per-operation contracts on the real steel-rc crate (Kani, loop-free over all 2^32 shared words, all biased "
             "counts, every owner case): every atomic step of increment/decrement/uniqueness test re-establishes the counting "
             "invariant I (abstract count == live references, flag protocol) from any state satisfying it, under arbitrary "
             "I-preserving interference between load and compare_exchange; Deallocate only with zero references; unique access "
             "only with one. The induction over schedules is a paper step over these obligations.",
        design_ref="DESIGN.md section 3, C05",
        note="Sequential semantics for Cell fields, SeqCst atomics, one CAS retry stands for all, counts < 2^29, queue bookkeeping "
             "(dashmap) and unsafe allocation code unverified; one open finding (fast_decrement with a pending queue entry).",
        technique="contract-based deductive verification: Kani function contracts + contract harnesses on the real crate (CBMC), rely/guarantee stubs for the shared word",
    ),
    "C10": dict(
        category="proof",
        text="Contracts on the numeric kernels of steel-core (add_two, multiply_two, negate, abs, the 12 quotient/remainder procedures, "
             "arithmetic-shift, canonicalisation impls, number_equality, PartialOrd numeric arms), extracted verbatim each run and checked by Kani "
             "against mathematical-integer specs over the full fixnum / flonum domain (loop-free => complete); bignum arms relative to an exact "
             "128-bit model of num-bigint; exact division results only on a boundary table (bounded, reported separately).",
        design_ref="DESIGN.md section 3, C10",
        note="Prelude (reduced SteelVal, Gc, BigInt model, message-less error macros) is trusted; rational/complex arms, expt, sqrt, "
             "number<->string, VM-inlined opcode arms and JIT fast paths are not covered; two open findings.",
        technique="contract-based deductive verification: verbatim extraction of real functions + Kani contract harnesses (CBMC), full input domains",
    ),
    "C07": dict(
        category="proof",
        text="Panic-freedom contracts for the numeric built-ins: for operands of every scalar kind and magnitude each procedure returns Ok or Err "
             "(Rust overflow/division/shift/unwrap/unreachable checks are MIR assertions Kani proves unreachable); type mismatches and zero "
             "divisors are error values.",
        design_ref="DESIGN.md section 3, C07",
        note="Only the numeric built-ins; arbitrary source text, native stack depth, engine state after errors, collection arguments are not covered.",
        technique="contract-based deductive verification: panic-freedom obligations on verbatim-extracted functions (Kani/CBMC)",
    ),
    "C20": dict(
        category="proof",
        text="Contracts on the integer/float/char/bool/unit/option conversion impls at the host boundary (macro-generated impls instantiated "
             "textually): Ok(r) implies r equals the script value, out-of-range or mistyped values are ConversionErrors, into/from round trips, "
             "for every value of every supported integer width.",
        design_ref="DESIGN.md section 3, C20",
        note="Containers, strings, registered structs, RegisterFn arity wrappers and lent references are not covered.",
        technique="contract-based deductive verification: verbatim extraction + Kani contract harnesses (CBMC), full input domains",
    ),
    "C06": dict(
        category="other",
        text="Contracts on the two mechanisms that keep earlier definitions meaningful: SymbolMap::add/roll_back (compiler/map.rs: a live "
             "binding's slot is never handed out, redefinition takes a new slot and queues the old one) and the global-slot recycler's bytecode "
             "scan (visit_closure: for EVERY opcode x EVERY 24-bit payload x JIT-trampolined or not, an instruction that uses a global index keeps "
             "that slot out of the free list). The opcode list is cross-checked against VmCore::vm each run. Map sequences are bounded.",
        design_ref="DESIGN.md section 3, C06",
        note="hashbrown replaced by exact finite-map models; visitor completeness over the other value kinds, JIT-embedded indices, "
             "engine-level trigger/rollback call sites not covered; two open roll_back findings. Level `other`: the single-instruction scan obligation is a complete proof, the map/recycle sequences are bounded.",
        technique="contract-based deductive verification: verbatim extraction + Kani contract harnesses (CBMC); single-instruction obligation is a full-domain proof",
    ),
    "C04": dict(
        category="other",
        text="Kernel-level contracts (Kani, bounded sizes) on the collector's data structure: FreeList::allocate never touches a slot other than "
             "the free one at the cursor and re-establishes wf; weak_collection never frees a slot that still has a handle and never changes "
             "contents; recount/grow_by keep the free count exact; mark_heap_reference/mark_heap_vector mark once and queue children; the marker's "
             "container arms queue every child (keys and values of maps, fields, captures ...); the host root table never reuses a live key. "
             "Level `other` because every loop-carrying obligation is bounded (<= 3 slots / 2 children).",
        design_ref="DESIGN.md section 3, C04/C19",
        note="Root enumeration from stacks/continuations/handlers, the parallel marker's own arms, Heap::* orchestration and allocation call sites "
             "(allocate_vector_iter etc.) are not covered; growth inside allocate (25600 slots) is out of reach.",
        technique="contract-based deductive verification: verbatim extraction + Kani contract harnesses (CBMC), bounded container sizes",
    ),
    "C19": dict(
        category="other",
        text="Reclamation side of the same contracts: a weak collection frees every marked slot without a handle and counts it, "
             "mark_all_unreachable + recount leave an exact free count, marking terminates on revisits (cycles), an unreferenced unmarked cell "
             "reports None through a weak box. Bounded sizes => level `other`.",
        design_ref="DESIGN.md section 3, C04/C19",
        note="'Eventually' and whole-program memory bounds are not decided (liveness); same exclusions as C04.",
        technique="contract-based deductive verification: verbatim extraction + Kani contract harnesses (CBMC), bounded container sizes",
    ),
    "C09": dict(
        category="other",
        text="Frame-reuse contracts on the interpreter's tail-call handlers (new_handle_tail_call_closure, tco_jump_handler, rest-argument "
             "adjustment): the frame count is unchanged, the operand stack becomes exactly stack[..sp] ++ arguments, everything below the frame is "
             "untouched, ip restarts at 0 in the callee's code; handle_function_call_closure pushes exactly one frame; check_stack_overflow returns "
             "an error value iff depth >= STACK_LIMIT for EVERY depth (complete proof). Stack-shuffle obligations are bounded (5 values, arity <= 2).",
        design_ref="DESIGN.md section 3, C09",
        note="Which call sites get tail opcodes (compiler), the native tier's tail-call paths, apply/continuation tail calls and heap growth are not covered; "
             "constant space over many iterations follows by induction from the per-call contract (paper step).",
        technique="contract-based deductive verification: verbatim extraction of VmCore methods + Kani contract harnesses (CBMC)",
    ),
    "C01": dict(
        category="other",
        text="Only local steps whose contract follows directly from the property are decided: operand encoding round trip (u24, all 2^24 values, "
             "complete), call set-up (the callee's frame holds exactly the arguments written at the call site; surplus arguments become the rest "
             "list in order; arity mismatch is an error), local variable read / move-on-last-use / assignment touch exactly the addressed slot, and "
             "the SUBIMMEDIATE arm of the interpreter loop computes the exact difference. Level `other`: this is a small part of a whole-pipeline property.",
        design_ref="DESIGN.md section 3, C01",
        note="The 15 AST passes, analysis, code generation, peephole rewrites, the rest of the 1400-line interpreter match and the stdlib are NOT covered.",
        technique="contract-based deductive verification: verbatim extraction of VmCore methods / a match arm + Kani contract harnesses (CBMC)",
    ),
    "C17": dict(
        category="proof",
        text="Contracts on the interruption flag protocol, loop-free over every flag combination: interrupt() sets paused+Interrupted and "
             "resume() clears them from every prior state; safepoint_or_interrupt returns an error (without parking, without publishing the thread "
             "pointer) iff paused && Interrupted, parks on Suspended / PausedAtSafepoint and always retracts the pointer; lemma: after interrupt() "
             "every poll fails until resume(), after which polls succeed; a thread waiting in enter_safepoint leaves its loop when interrupted.",
        design_ref="DESIGN.md section 3, C17",
        note="That every loop of every tier actually polls (interpreter loop head, JIT code, transducers, primitives) and the latency bound are NOT "
             "decided - the larger part of the property. Single-thread semantics for the two relaxed stores.",
        technique="contract-based deductive verification: verbatim extraction + Kani contract harnesses (CBMC), all flag states",
    ),
    "C12": dict(
        category="proof",
        text="(1) Source-location arithmetic (span.rs) under Verus with contracts injected at the real signatures: new/double/merge build exactly "
             "the stated fields, width cannot underflow on well-formed spans, coalesce_span returns the tight hull of ANY number of spans "
             "(inductive loop invariant, no bound) - a derived location lies inside the text whenever its parts do. (2) Lexer position "
             "bookkeeping on the REAL steel-parser crate under Kani (bounded: concrete / 2-character texts incl. 2-, 3-, 4-byte characters): "
             "strip_shebang_line returns (chars, bytes), after TokenStream::new the byte offset equals the bytes the character iterator consumed, "
             "Lexer::eat advances by the encoded length, IdentBuffer replays escaped identifiers exactly. (3) The writer's classification of a "
             "complex number's imaginary part (finite / negative) for every f64.",
        design_ref="DESIGN.md section 3, C12",
        note="Totality of the lexer/parser on arbitrary text and the write/read round trip as a whole are not decided (string search is out of "
             "CBMC's reach beyond a few concrete texts); the parser proper, printer and print.scm are not covered.",
        technique="contract-based deductive verification: Verus (Z3) with requires/ensures and a loop invariant on verbatim span.rs; Kani contract harnesses on the real steel-parser crate",
    ),
    "C03": dict(
        category="other",
        text="Two kernels. (1) The uniqueness oracle every in-place update trusts - RcBox::has_unique_ref, BiasedRc::get_mut / make_mut / "
             "try_unwrap on the REAL steel-rc crate (complete proofs, shared with C05): exclusive access only for the only reference, asking never "
             "changes the count. (2) The primitives that mutate under that oracle (hash-insert/remove/clear, hashset-insert/clear, "
             "immutable-vector push/push-front/rest/set, string-push, string->uninterned-symbol) extracted verbatim: with a second holder alive its "
             "view is unchanged and the result is the functional update; as sole holder the argument slot is consumed. Kernel 2 is bounded "
             "(concrete 2-entry collections) => level `other`.",
        design_ref="DESIGN.md section 3, C03",
        note="Persistent collections replaced by exact finite models; the compiler's last-use analysis / MOVEREADLOCAL, im-lists internals, struct "
             "updates, the JIT's move handling and cross-thread sharing are not covered. hash-union obligations only in the thorough tier.",
        technique="contract-based deductive verification: Kani contract harnesses on the real steel-rc crate + verbatim-extracted primitives (CBMC)",
    ),
}

NOT_APPLICABLE = {
    "C02": "relational property over two whole executions (interpreter vs Cranelift-generated machine code, pass on vs off); no per-function contract expresses it and generated code cannot be loaded by Kani/Verus",
    "C08": "continuation capture/reinstatement is spread over VmCore and Scheme library code (dynamic-wind, with-handler, reset/shift); no verifier for the Scheme half, Rust half clones SteelVal stacks (Kani TLS ICE / outside Verus subset)",
    "C11": "needs induction over all 36 SteelVal kinds through thread-local work queues and third-party persistent containers; reachable by neither tool (scalar numeric equality is covered under C10)",
    "C13": "hygiene is a property of whole expansions over interned strings and AST visitors (string-prefix reasoning + global interner); no function-local statement",
    "C14": "module isolation is name mangling over strings/paths plus a compiled-module table across engine calls; 'evaluated exactly once' is a history property",
    "C15": "statement about interleavings of relaxed atomics and a raw pointer handshake; Kani has no threads, Verus would need a rewrite with its permission types (a model)",
    "C16": "progress / deadlock-freedom is liveness over schedules; no contract expresses it",
    "C18": "native-stack bound of recursion through Drop/Hash/Display; neither tool measures native stack and the code is behind the Kani TLS ICE",
}


def manifest():
    checks = []
    for pid, c in sorted(CHECKS.items()):
        checks.append({
            "property_id": pid,
            "quick_cmd": f"./check {pid} quick",
            "thorough_cmd": f"./check {pid} thorough",
            "evidence_file": f"evidence/{pid}.json",
            "replay_cmd_template": "cat {path}",
            "engine": "contracts",
            "level_claimed": {"category": c["category"], "text": c["text"], "design_ref": c["design_ref"]},
            "level_note": c["note"],
            "technique": c["technique"],
        })
    claimed = set(CHECKS)
    na = [{"property_id": k, "reason": v} for k, v in sorted(NOT_APPLICABLE.items()) if k not in claimed]
    # properties planned but whose check is not built yet are listed as not applicable *for now*
    for pid in ["C01", "C03", "C04", "C06", "C07", "C09", "C10", "C12", "C17", "C19", "C20"]:
        if pid not in claimed and pid not in NOT_APPLICABLE:
            na.append({"property_id": pid, "reason": "check not built yet in this revision (planned, see DESIGN.md section 3)"})
    return {
        "version": 1,
        "setup_cmd": "python3 tools_gen_manifest.py >/dev/null && mkdir -p .cache evidence",
        "hooks": {
            "guard": "kani",
            "enable": "no hooks live in /repo: contracts are injected as #[cfg_attr(kani, ...)] / #[cfg(kani)] lines into scratch copies made from /repo's working tree on every run",
            "baseline_off_cmd": BASELINE,
            "source_commits": [],
            "add_only": True,
        },
        "engines": [
            {"name": "contracts", "path": "check", "serves_properties": sorted(claimed),
             "kind_free_text": "contract-based deductive verification of the real code: Kani function contracts / contract harnesses (CBMC) on the real crate or on verbatim-extracted items; Verus on verbatim-extracted items"},
        ],
        "checks": checks,
        "not_applicable": sorted(na, key=lambda x: x["property_id"]),
        "notes": "exit 0 all obligations discharged; exit 1 + VIOLATION line for an unlisted failed obligation; exit 2 = machinery could not decide (lost anchor, tool crash), never an alarm. known_findings.txt lists unrepaired genuine defects.",
    }
