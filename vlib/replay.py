"""Native replay of a Kani counterexample against the real function bodies.

Kani prints, for a failing harness, the concrete bytes every `kani::any()` returned. This module
compiles the SAME crate the verifier saw (the real crate copy for E1, the verbatim-extracted items
for E2) natively with `--cfg verif_replay`, with a tiny `kani` shim whose `any()` hands out exactly
those bytes, applies the harness' `#[kani::stub(..)]` substitutions textually, and runs the harness
as an ordinary test. If the run panics (other than on a violated assumption) the counterexample is
confirmed on natively executing code."""
import os
import re
import shutil

from .common import CACHE, run, read, write
from .extract import match_close, _body_open

SHIM = r'''
#[cfg(verif_replay)]
#[macro_export]
macro_rules! __verif_cover {
    ($($t:tt)*) => {};
}
#[cfg(verif_replay)]
#[allow(dead_code)]
pub mod kani {
    pub use crate::__verif_cover as cover;
    use std::cell::RefCell;
    thread_local! {
        static VALS: RefCell<(Vec<Vec<u8>>, usize)> = RefCell::new((Vec::new(), 0));
    }
    pub fn load(v: Vec<Vec<u8>>) {
        VALS.with(|c| *c.borrow_mut() = (v, 0));
    }
    fn next(n: usize) -> Vec<u8> {
        VALS.with(|c| {
            let mut g = c.borrow_mut();
            let i = g.1;
            g.1 += 1;
            let mut b = if i < g.0.len() { g.0[i].clone() } else { Vec::new() };
            b.resize(n, 0);
            b
        })
    }
    pub trait Arbitrary: Sized {
        fn any() -> Self;
    }
    macro_rules! prim {
        ($($t:ty),*) => {$(
            impl Arbitrary for $t {
                fn any() -> Self {
                    let b = next(core::mem::size_of::<$t>());
                    let mut a = [0u8; core::mem::size_of::<$t>()];
                    a.copy_from_slice(&b);
                    <$t>::from_le_bytes(a)
                }
            }
        )*};
    }
    prim!(u8, u16, u32, u64, u128, usize, i8, i16, i32, i64, i128, isize, f32, f64);
    impl Arbitrary for bool {
        fn any() -> Self {
            next(1)[0] & 1 == 1
        }
    }
    impl Arbitrary for char {
        fn any() -> Self {
            let b = next(4);
            char::from_u32(u32::from_le_bytes([b[0], b[1], b[2], b[3]])).unwrap_or('\u{0}')
        }
    }
    impl<T: Arbitrary> Arbitrary for Option<T> {
        fn any() -> Self {
            if bool::any() {
                Some(T::any())
            } else {
                None
            }
        }
    }
    impl<T: Arbitrary, const N: usize> Arbitrary for [T; N] {
        fn any() -> Self {
            core::array::from_fn(|_| T::any())
        }
    }
    pub fn any<T: Arbitrary>() -> T {
        T::any()
    }
    pub fn assume(b: bool) {
        if !b {
            panic!("VERIF-REPLAY: assumption violated (the recorded values do not follow the harness path)");
        }
    }
}
'''


def parse_concrete_vals(unit_test_text):
    if not unit_test_text:
        return None
    m = re.search(r"let concrete_vals: Vec<Vec<u8>> = vec!\[(.*?)\];\s*kani::concrete_playback_run", unit_test_text, re.S)
    if not m:
        return None
    vals = []
    for vm in re.finditer(r"vec!\[([\d,\s]*)\]", m.group(1)):
        nums = [int(x) for x in vm.group(1).replace("\n", " ").split(",") if x.strip()]
        vals.append(nums)
    return vals


def _param_names(params):
    names = []
    depth = 0
    cur = ""
    for ch in params:
        if ch in "<([{":
            depth += 1
        elif ch in ">)]}":
            depth -= 1
        if ch == "," and depth == 0:
            names.append(cur)
            cur = ""
        else:
            cur += ch
    if cur.strip():
        names.append(cur)
    out = []
    for p in names:
        p = p.strip()
        if p in ("self", "&self", "&mut self", "mut self"):
            out.append("self")
        else:
            out.append(p.split(":")[0].replace("mut ", "").strip())
    return out


def _apply_stub(text, target, stub_path):
    """Route calls of `Type::func` (or free `func`) to `stub_path` by renaming the real function
    and adding a forwarder with the same header."""
    func = target.split("::")[-1]
    pat = re.compile(r"^([ \t]*)((?:pub(?:\([a-z:]+\))?\s+)?(?:unsafe\s+)?fn\s+" + re.escape(func) + r")\b", re.M)
    ms = [m for m in pat.finditer(text) if "verif_replay" not in text[max(0, m.start() - 80):m.start()]]
    if len(ms) != 1:
        return text, False
    m = ms[0]
    start = m.start(2)
    ob = _body_open(text, start)
    header = text[start:ob]
    po = header.index("(")
    pc = match_close(header, po, "(", ")")
    names = _param_names(header[po + 1:pc - 1])
    fwd = header.rstrip() + " { " + stub_path + "(" + ", ".join(names) + ") }\n" + m.group(1)
    renamed = text[:start] + "#[cfg(verif_replay)]\n" + m.group(1) + fwd + "#[cfg(not(verif_replay))]\n" + m.group(1) + text[start:]
    return renamed, True


def native_replay(crate_dir, harness_name, concrete_vals, target_name, timeout=600):
    """Returns dict(input_found, detail)."""
    if concrete_vals is None:
        # the verifier printed no values (harness without symbolic inputs, or playback timed out):
        # run the harness natively anyway - the shim hands out zeros, a violated kani::assume is
        # reported as "not found", and a native failure of the contract assertion is a failing input
        concrete_vals = []
    rdir = crate_dir.rstrip("/") + "-replay"
    shutil.rmtree(rdir, ignore_errors=True)
    shutil.copytree(crate_dir, rdir, ignore=shutil.ignore_patterns("target"))
    src = os.path.join(rdir, "src")
    files = {}
    for root, _, fs in os.walk(src):
        for f in fs:
            if f.endswith(".rs"):
                p = os.path.join(root, f)
                files[p] = read(p)
    # locate the harness and its stub attributes
    hfile, stubs = None, []
    for p, t in files.items():
        m = re.search(r"((?:[ \t]*#\[[^\n]*\]\n)*)[ \t]*(?:pub\s+)?fn\s+" + re.escape(harness_name) + r"\s*\(\s*\)", t)
        if m:
            hfile = p
            stubs = re.findall(r"#\[kani::stub\(\s*([\w:<>]+)\s*,\s*([\w:]+)\s*\)\]", m.group(1))
            break
    if not hfile:
        # harness generated by a macro_rules! invocation `some_macro!(harness_name, ...)`
        for p, t in files.items():
            if re.search(r"\w+!\(\s*" + re.escape(harness_name) + r"\b", t):
                hfile = p
                break
    if not hfile:
        return {"input_found": False, "detail": "harness source not found for native replay"}
    # module path of the harness file (for the stub path): stubs are named relative to the harness module
    new_files = {}
    for p, t in files.items():
        t = t.replace("#[cfg(kani)]", "#[cfg(any(kani, verif_replay))]")
        t = re.sub(r"^[ \t]*#\[kani::[^\n]*\]\n", "", t, flags=re.M)
        new_files[p] = t
    # stub substitution in every non-harness file
    notes = []
    hmod = _module_path(src, hfile)
    for target, stub in stubs:
        done = False
        for p in list(new_files):
            if p == hfile:
                continue
            t2, ok = _apply_stub(new_files[p], target, "crate::" + hmod + "::" + stub if hmod else "crate::" + stub)
            if ok:
                new_files[p] = t2
                done = True
                break
        notes.append(f"stub {target} -> {stub}: {'applied' if done else 'NOT applied'}")
    vals_txt = ", ".join("vec![" + ", ".join(str(x) for x in v) + "]" for v in concrete_vals)
    new_files[hfile] += ("\n#[cfg(verif_replay)]\n#[test]\nfn verif_replay_main() {\n    crate::kani::load(vec![" + vals_txt + "]);\n    "
                         + harness_name + "();\n}\n")
    lib = os.path.join(src, "lib.rs")
    new_files[lib] = new_files[lib] + "\n" + SHIM
    for p in list(new_files):
        if p != lib and "kani::" in new_files[p]:
            new_files[p] = _insert_use(new_files[p], "#[cfg(verif_replay)]\n#[allow(unused_imports)]\nuse crate::kani;\n")
    for p, t in new_files.items():
        write(p, t)
    ct = os.path.join(rdir, "Cargo.toml")
    write(ct, read(ct).replace("check-cfg = ['cfg(kani)']", "check-cfg = ['cfg(kani)', 'cfg(verif_replay)']"))
    target = os.path.join(CACHE, "target-" + target_name + "-replay")
    rc, out, secs = run(["cargo", "test", "--offline", "--lib", "verif_replay_main", "--", "--nocapture", "--test-threads", "1"],
                        cwd=rdir, timeout=timeout,
                        env={"RUSTFLAGS": "--cfg verif_replay -A warnings", "CARGO_TARGET_DIR": target})
    shutil.rmtree(rdir, ignore_errors=True)
    pan = re.findall(r"panicked at [^\n]*\n([^\n]*)", out)
    if rc is None:
        return {"input_found": False, "detail": "native replay timed out", "notes": notes}
    if "error[" in out or "error: could not compile" in out:
        errs = "\n".join(l for l in out.splitlines() if l.startswith("error"))[:600]
        return {"input_found": False, "detail": "native replay did not compile: " + errs, "notes": notes}
    if "test result: FAILED" in out or (pan and rc != 0):
        msg = (pan[0] if pan else "")[:300]
        if "VERIF-REPLAY: assumption violated" in out:
            return {"input_found": False, "detail": "recorded values did not follow the harness path natively: " + msg, "notes": notes}
        return {"input_found": True, "detail": "native execution of the real function bodies with the verifier's values fails: " + msg,
                "concrete_vals": concrete_vals, "notes": notes, "cmd": "RUSTFLAGS='--cfg verif_replay' cargo test --lib verif_replay_main"}
    return {"input_found": False, "detail": "native execution with the verifier's values did not fail (the failing check may be a CBMC-level check or a contract-internal assertion)", "notes": notes}


def _insert_use(text, line):
    """insert an item after the leading inner attributes / comments of a module file"""
    lines = text.split("\n")
    i = 0
    while i < len(lines) and (lines[i].startswith("#![") or lines[i].startswith("//") or not lines[i].strip()):
        i += 1
    return "\n".join(lines[:i]) + "\n" + line + "\n".join(lines[i:])


def _module_path(src_root, file_path):
    """crate-relative module path of a harness file, from `#[path = ".."] mod name;` declarations
    or the file name."""
    base = os.path.basename(file_path)
    for root, _, fs in os.walk(src_root):
        for f in fs:
            if not f.endswith(".rs"):
                continue
            t = read(os.path.join(root, f))
            m = re.search(r'#\[path\s*=\s*"' + re.escape(base) + r'"\]\s*(?:pub\s+)?mod\s+(\w+)\s*;', t)
            if m:
                parent = _module_path(src_root, os.path.join(root, f)) if f != "lib.rs" else ""
                return (parent + "::" if parent else "") + m.group(1)
    name = base[:-3]
    return "" if name == "lib" else name
