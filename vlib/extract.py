"""Verbatim item extractor (engine E2/E3): copies Rust items out of /repo source files as text.

No parsing library: a small lexer that understands comments, string / raw-string / char literals
and lifetimes is enough to match braces reliably. The body of every extracted item is copied
byte-for-byte; the only edits are the declared ones (DESIGN.md 2.2): D1 attributes/doc comments in
front of the item are not copied, D3 a method is wrapped in a fresh `impl` block with the
original header, D5 macro_rules instantiation by textual substitution, D6 partial item."""
import re

from .common import AnchorLost, repo_file, sha256


def _skip_ws_comments(s, i):
    n = len(s)
    while i < n:
        c = s[i]
        if c in " \t\r\n":
            i += 1
        elif s.startswith("//", i):
            j = s.find("\n", i)
            i = n if j < 0 else j + 1
        elif s.startswith("/*", i):
            i = _skip_block_comment(s, i)
        else:
            break
    return i


def _skip_block_comment(s, i):
    depth = 0
    n = len(s)
    while i < n:
        if s.startswith("/*", i):
            depth += 1
            i += 2
        elif s.startswith("*/", i):
            depth -= 1
            i += 2
            if depth == 0:
                return i
        else:
            i += 1
    return n


def _skip_string(s, i):
    # s[i] == '"'
    n = len(s)
    i += 1
    while i < n:
        if s[i] == "\\":
            i += 2
        elif s[i] == '"':
            return i + 1
        else:
            i += 1
    return n


def _try_raw_string(s, i):
    # r"..."  r#"..."#  br#"..."#
    m = re.match(r"b?r(#*)\"", s[i:])
    if not m:
        return None
    hashes = m.group(1)
    end = s.find('"' + hashes, i + m.end())
    return len(s) if end < 0 else end + 1 + len(hashes)


def _try_char(s, i):
    # s[i] == "'"; distinguish char literal from lifetime
    m = re.match(r"'(\\x[0-9a-fA-F]{2}|\\u\{[0-9a-fA-F_]+\}|\\.|[^\\'\n])'", s[i:])
    if m:
        return i + m.end()
    return None


def match_close(s, i, open_c="{", close_c="}"):
    """s[i] == open_c; return index just after the matching close."""
    assert s[i] == open_c, (s[i:i + 20], open_c)
    depth = 0
    n = len(s)
    while i < n:
        c = s[i]
        if s.startswith("//", i):
            j = s.find("\n", i)
            i = n if j < 0 else j + 1
            continue
        if s.startswith("/*", i):
            i = _skip_block_comment(s, i)
            continue
        if c == '"':
            i = _skip_string(s, i)
            continue
        if c in "rb":
            prev = s[i - 1] if i > 0 else " "
            if not (prev.isalnum() or prev == "_"):
                j = _try_raw_string(s, i)
                if j is not None:
                    i = j
                    continue
                if s.startswith('b"', i):
                    i = _skip_string(s, i + 1)
                    continue
                if s.startswith("b'", i):
                    j = _try_char(s, i + 1)
                    if j is not None:
                        i = j
                        continue
        if c == "'":
            j = _try_char(s, i)
            if j is not None:
                i = j
                continue
            i += 1
            continue
        if c == open_c:
            depth += 1
        elif c == close_c:
            depth -= 1
            if depth == 0:
                return i + 1
        i += 1
    raise AnchorLost("unbalanced braces while extracting")


def _code_positions(s, pat):
    """Yield regex matches of `pat` that start outside comments/strings (cheap filter: the match
    line must not be inside a // comment; block comments and strings are rare at item headers)."""
    for m in re.finditer(pat, s, re.M):
        ls = s.rfind("\n", 0, m.start()) + 1
        line_prefix = s[ls:m.start()]
        if "//" in line_prefix:
            continue
        yield m


def _body_open(s, i):
    """From the start of an item header, find the `{` that opens its body (skipping generics,
    parameter lists, where clauses). Returns index of '{'."""
    n = len(s)
    depth_paren = depth_angle = depth_brack = 0
    while i < n:
        c = s[i]
        if s.startswith("//", i):
            j = s.find("\n", i)
            i = n if j < 0 else j + 1
            continue
        if s.startswith("/*", i):
            i = _skip_block_comment(s, i)
            continue
        if c == '"':
            i = _skip_string(s, i)
            continue
        if c == "'":
            j = _try_char(s, i)
            i = j if j is not None else i + 1
            continue
        if c == "(":
            depth_paren += 1
        elif c == ")":
            depth_paren -= 1
        elif c == "[":
            depth_brack += 1
        elif c == "]":
            depth_brack -= 1
        elif c == "{" and depth_paren == 0 and depth_brack == 0:
            return i
        elif c == ";" and depth_paren == 0 and depth_brack == 0:
            raise AnchorLost("item has no body")
        i += 1
    raise AnchorLost("item body not found")


class Extractor:
    def __init__(self):
        self.items = []   # metadata for evidence
        self.cache = {}

    def src(self, rel):
        if rel not in self.cache:
            self.cache[rel] = repo_file(rel)
        return self.cache[rel]

    def _record(self, rel, kind, name, start, end, text, edits):
        self.items.append({"file": rel, "kind": kind, "item": name, "bytes": [start, end],
                           "sha256": sha256(text), "edits": edits})

    def fn(self, rel, name, occurrence=None, within=None):
        """Free function or method `fn name` (exactly one definition in the file unless
        `within` = (start,end) restricts the search or occurrence picks one)."""
        s = self.src(rel)
        lo, hi = within if within else (0, len(s))
        pat = r"^[ \t]*((?:pub(?:\([a-z:]+\))?\s+)?(?:const\s+)?(?:unsafe\s+)?(?:extern\s+\"C\"\s+)?fn\s+" + re.escape(name) + r")\b"
        ms = [m for m in _code_positions(s, pat) if lo <= m.start() < hi]
        if occurrence is not None:
            if occurrence >= len(ms):
                raise AnchorLost(f"{rel}: fn {name} occurrence {occurrence} not found ({len(ms)} definitions)")
            ms = [ms[occurrence]]
        if len(ms) != 1:
            raise AnchorLost(f"{rel}: fn {name} found {len(ms)} times (need exactly 1)")
        start = ms[0].start(1)
        ob = _body_open(s, start)
        end = match_close(s, ob)
        text = s[start:end]
        self._record(rel, "fn", name, start, end, text, ["D1"])
        return text

    def impl_block(self, rel, header_regex):
        """Whole `impl ... {` block whose header matches the regex (exactly once)."""
        s = self.src(rel)
        ms = list(_code_positions(s, r"^[ \t]*(" + header_regex + r")"))
        if len(ms) != 1:
            raise AnchorLost(f"{rel}: impl `{header_regex}` found {len(ms)} times (need exactly 1)")
        start = ms[0].start(1)
        ob = _body_open(s, start)
        end = match_close(s, ob)
        text = s[start:end]
        self._record(rel, "impl", header_regex, start, end, text, ["D1"])
        return text

    def impl_range(self, rel, header_regex):
        s = self.src(rel)
        ms = list(_code_positions(s, r"^[ \t]*(" + header_regex + r")"))
        if len(ms) != 1:
            raise AnchorLost(f"{rel}: impl `{header_regex}` found {len(ms)} times (need exactly 1)")
        start = ms[0].start(1)
        ob = _body_open(s, start)
        end = match_close(s, ob)
        return start, ob, end

    def method(self, rel, impl_header_regex, name, new_header=None):
        """Method `name` of the impl block matching the header; wrapped into a fresh impl block
        with the original header text (edit D3) or `new_header` if given."""
        s = self.src(rel)
        start, ob, end = self.impl_range(rel, impl_header_regex)
        body = self.fn(rel, name, within=(ob, end))
        self.items[-1]["edits"] = ["D1", "D3"]
        hdr = new_header if new_header else s[start:ob].rstrip()
        return hdr + " {\n    " + body + "\n}\n"

    def item(self, rel, kind, name):
        """struct / enum / const / static / type by name."""
        s = self.src(rel)
        pat = r"^[ \t]*((?:pub(?:\([a-z:]+\))?\s+)?" + kind + r"\s+" + re.escape(name) + r")\b"
        ms = list(_code_positions(s, pat))
        if len(ms) != 1:
            raise AnchorLost(f"{rel}: {kind} {name} found {len(ms)} times (need exactly 1)")
        start = ms[0].start(1)
        # ends at matching brace, or at ';' for const/static/type/tuple struct
        # (scan from the end of the matched header: the `(` of `pub(crate)` is not a tuple-struct parenthesis)
        i = ms[0].end(1)
        n = len(s)
        while i < n and s[i] not in "{;(":
            i += 1
        if i < n and s[i] == "{":
            end = match_close(s, i)
        elif i < n and s[i] == "(":
            j = match_close(s, i, "(", ")")
            end = s.find(";", j) + 1
        else:
            # const X: T = expr;  (expr may contain braces) -> scan to ';' at depth 0
            depth = 0
            j = start
            while j < n:
                if s[j] in "{([":
                    depth += 1
                elif s[j] in "})]":
                    depth -= 1
                elif s[j] == ";" and depth == 0:
                    break
                j += 1
            end = j + 1
        text = s[start:end]
        self._record(rel, kind, name, start, end, text, ["D1"])
        return text

    def macro_instance(self, rel, macro_name, arm_index, subst):
        """D5: instantiate arm `arm_index` of `macro_rules! macro_name` by replacing `$x` with
        subst['x'] textually in the arm's transcriber, dropping one level of `$( ... )*`
        repetition markers."""
        s = self.src(rel)
        ms = list(_code_positions(s, r"^[ \t]*(macro_rules!\s+" + re.escape(macro_name) + r")\b"))
        if len(ms) != 1:
            raise AnchorLost(f"{rel}: macro_rules! {macro_name} found {len(ms)} times")
        start = ms[0].start(1)
        ob = s.index("{", start)
        end = match_close(s, ob)
        body = s[ob + 1:end - 1]
        # arms:  (pattern) => { transcriber } ;
        arms = []
        i = 0
        while True:
            i = _skip_ws_comments(body, i)
            if i >= len(body):
                break
            if body[i] != "(":
                raise AnchorLost(f"macro {macro_name}: unexpected arm syntax")
            j = match_close(body, i, "(", ")")
            k = body.index("=>", j)
            k = _skip_ws_comments(body, k + 2)
            e = match_close(body, k)
            arms.append(body[k + 1:e - 1])
            i = e
            i = _skip_ws_comments(body, i)
            if i < len(body) and body[i] == ";":
                i += 1
        if arm_index >= len(arms):
            raise AnchorLost(f"macro {macro_name}: arm {arm_index} missing")
        t = arms[arm_index]
        # strip one level of $( ... )* / $( ... ),*
        t2 = t.strip()
        m = re.match(r"^\$\((.*)\)\s*[,;]?\s*[\*\+]\s*$", t2, re.S)
        if m:
            t2 = m.group(1)
        for k, v in subst.items():
            t2 = re.sub(r"\$" + re.escape(k) + r"\b", v, t2)
        if "$" in t2:
            raise AnchorLost(f"macro {macro_name}: unsubstituted metavariable after D5")
        self._record(rel, "macro-instance", f"{macro_name}!{subst}", start, end, t2, ["D5"])
        return t2


    def macro_invocations(self, rel, macro_name):
        """Top-level invocations `macro_name!( args );` in the file: returns the list of raw
        argument strings (used to instantiate exactly what the real file instantiates)."""
        s = self.src(rel)
        out = []
        for m in _code_positions(s, r"^(" + re.escape(macro_name) + r"!\s*\()"):
            ob = s.index("(", m.start(1))
            end = match_close(s, ob, "(", ")")
            out.append(s[ob + 1:end - 1].strip())
        return out

    def match_arm_block(self, rel, pattern_regex):
        """D6: the block body `{ ... }` of the match arm whose pattern text matches the regex
        (exactly once); returned WITH its braces."""
        s = self.src(rel)
        ms = list(_code_positions(s, pattern_regex))
        if len(ms) != 1:
            raise AnchorLost(f"{rel}: match arm `{pattern_regex}` found {len(ms)} times (need exactly 1)")
        i = s.index("=>", ms[0].end())
        i = _skip_ws_comments(s, i + 2)
        if s[i] != "{":
            raise AnchorLost(f"{rel}: match arm `{pattern_regex}` has no block body")
        end = match_close(s, i)
        text = s[i:end]
        self._record(rel, "match-arm", pattern_regex, i, end, text, ["D6"])
        return text

    def fn_in_impls(self, rel, header_regex, name):
        """`fn name` defined in exactly one of the (possibly several) impl blocks matching the header."""
        s = self.src(rel)
        found = []
        for m in _code_positions(s, r"^[ \t]*(" + header_regex + r")"):
            start = m.start(1)
            ob = _body_open(s, start)
            end = match_close(s, ob)
            pat = r"^[ \t]*((?:pub(?:\([a-z:]+\))?\s+)?(?:const\s+)?(?:unsafe\s+)?fn\s+" + re.escape(name) + r")\b"
            for fm in _code_positions(s, pat):
                if ob <= fm.start() < end:
                    found.append((ob, end))
        if len(found) != 1:
            raise AnchorLost(f"{rel}: fn {name} found {len(found)} times in impls `{header_regex}` (need exactly 1)")
        return self.fn(rel, name, within=found[0])
