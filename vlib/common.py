"""Shared plumbing for every check: scratch dirs, command running, results, evidence,
known findings, replay files.

Exit codes used by ./check (DESIGN.md section 2.5):
  0  every obligation of the property was discharged on /repo's current tree
  1  an obligation failed that known_findings.txt does not list  -> VIOLATION line
  2  the machinery itself could not decide (lost anchor, tool crash, timeout) -> no VIOLATION line
"""
import fcntl
import hashlib
import json
import os
import re
import shutil
import subprocess
import sys
import time

VERIF = os.path.dirname(os.path.dirname(os.path.abspath(__file__)))
REPO = os.environ.get("VERIF_REPO", "/repo")
SCRATCH = os.environ.get("VERIF_SCRATCH", "/var/tmp/verif-scratch")
CACHE = os.path.join(VERIF, ".cache")
NCPU = os.cpu_count() or 4


class MachineryError(Exception):
    """The check cannot decide (exit 2); never reported as a violation."""


class AnchorLost(MachineryError):
    pass


def log(*a):
    print(*a, file=sys.stderr, flush=True)


def sha256(b):
    if isinstance(b, str):
        b = b.encode()
    return hashlib.sha256(b).hexdigest()


def read(path):
    with open(path, encoding="utf-8") as f:
        return f.read()


def write(path, text):
    os.makedirs(os.path.dirname(path), exist_ok=True)
    with open(path, "w", encoding="utf-8") as f:
        f.write(text)


def repo_file(rel):
    p = os.path.join(REPO, rel)
    if not os.path.exists(p):
        raise AnchorLost(f"file missing in repo: {rel}")
    return read(p)


class Scratch:
    """A scratch directory at a *fixed* path per unit (so cargo fingerprints stay valid between
    runs and the persistent target dir under /verif/.cache can be reused), protected by a lock."""

    def __init__(self, name):
        self.name = name
        self.path = os.path.join(SCRATCH, name)
        self.lockf = None

    def __enter__(self):
        os.makedirs(SCRATCH, exist_ok=True)
        self.lockf = open(os.path.join(SCRATCH, self.name + ".lock"), "w")
        fcntl.flock(self.lockf, fcntl.LOCK_EX)
        shutil.rmtree(self.path, ignore_errors=True)
        os.makedirs(self.path)
        return self.path

    def __exit__(self, *exc):
        if not os.environ.get("VERIF_KEEP_SCRATCH"):
            shutil.rmtree(self.path, ignore_errors=True)
        fcntl.flock(self.lockf, fcntl.LOCK_UN)
        self.lockf.close()
        return False


def run(cmd, cwd=None, env=None, timeout=None, input=None):
    """Run, capture combined output. Returns (rc, out, seconds). rc=None on timeout."""
    e = dict(os.environ)
    e.setdefault("CARGO_NET_OFFLINE", "true")
    if env:
        e.update(env)
    t0 = time.time()
    try:
        p = subprocess.run(cmd, cwd=cwd, env=e, stdout=subprocess.PIPE, stderr=subprocess.STDOUT,
                           timeout=timeout, input=input, text=True, errors="replace")
        return p.returncode, p.stdout, time.time() - t0
    except subprocess.TimeoutExpired as ex:
        out = ex.stdout or ""
        if isinstance(out, bytes):
            out = out.decode(errors="replace")
        return None, out, time.time() - t0


# ----------------------------------------------------------------------------------------------
# Obligation results
# ----------------------------------------------------------------------------------------------

class Ob:
    """One proof obligation and what the back end said about it."""

    def __init__(self, unit, name, kind, backend, status, seconds=0.0, detail="", bound=None,
                 contract="", functions=(), known_class=None, expect_fail=False, output="",
                 playback=None):
        self.unit = unit
        self.name = name
        self.kind = kind          # "proof" (complete) | "bounded" | "canary" | "known" (b-half of a finding)
        self.backend = backend    # e.g. "kani/cbmc(cadical)", "verus/z3"
        self.status = status      # "discharged" | "failed" | "undecided"
        self.seconds = seconds
        self.detail = detail      # failed check descriptions
        self.bound = bound
        self.contract = contract
        self.functions = list(functions)
        self.known_class = known_class
        self.expect_fail = expect_fail
        self.output = output
        self.playback = playback

    def key(self):
        return f"{self.unit}/{self.name}"

    def to_json(self):
        d = {"obligation": self.key(), "kind": self.kind, "backend": self.backend,
             "status": self.status, "solver_s": round(self.seconds, 2)}
        if self.bound:
            d["bound"] = self.bound
        if self.contract:
            d["contract"] = self.contract
        if self.functions:
            d["functions"] = self.functions
        if self.detail:
            d["detail"] = self.detail[:600]
        return d


# ----------------------------------------------------------------------------------------------
# known findings
# ----------------------------------------------------------------------------------------------

def load_known_findings():
    """Lines:  finding: property=<id> obligation=<unit/name> -- text
               fixed: property=<id> <commit> <what failed>            (suppresses nothing)"""
    out = []
    p = os.path.join(VERIF, "known_findings.txt")
    if not os.path.exists(p):
        return out
    for line in read(p).splitlines():
        line = line.strip()
        if not line or line.startswith("#"):
            continue
        m = re.match(r"finding:\s+property=(\S+)\s+obligation=(\S+)\s+--\s+(.*)$", line)
        if m:
            out.append({"property": m.group(1), "obligation": m.group(2), "text": m.group(3)})
    return out


# ----------------------------------------------------------------------------------------------
# Evidence + verdict
# ----------------------------------------------------------------------------------------------

def scan_assumptions(text, label):
    """Mechanical scan of generated unit text for things that are assumptions, not proof."""
    pats = [r"kani::assume\b", r"\bassume\(", r"\badmit\(", r"external_body", r"assume_specification",
            r"kani::stub\b", r"kani::stub_verified", r"#\[verifier::", r"unwind\("]
    counts = {}
    for p in pats:
        n = len(re.findall(p, text))
        if n:
            counts[p.replace("\\b", "").replace("\\(", "(").replace("\\[", "[")] = n
    return [f"{label}: {k} x{v}" for k, v in sorted(counts.items())]


def finish(prop, tier, t0, obs, units_meta, trusted_base, assumptions, level_if_all_proof="proof",
           explanation="", checker_cmd="", replay_builder=None):
    """Decide the verdict for a property from its obligations, write evidence, print lines,
    return the exit code."""
    known = [k for k in load_known_findings() if k["property"] == prop]
    known_keys = {k["obligation"]: k for k in known}
    seed = int(os.environ.get("VERIF_SEED", "0") or 0)

    violations = []
    undecided = []
    known_printed = []
    vacuity_problems = []
    counted = [o for o in obs if o.kind in ("proof", "bounded")]
    for o in obs:
        if o.kind == "canary":
            # a canary must FAIL; if it verifies, the unit is vacuous
            if o.status == "discharged":
                vacuity_problems.append(o.key())
            elif o.status == "undecided":
                undecided.append(o)
            continue
        if o.kind == "known":
            # (b)-half of a listed finding: expected to fail while the finding is open
            if o.status == "failed":
                if o.key() in known_keys:
                    known_printed.append((o, known_keys[o.key()]))
                else:
                    violations.append(o)
            elif o.status == "undecided":
                undecided.append(o)
            # discharged: the defect has been repaired; print nothing
            continue
        if o.status == "failed":
            violations.append(o)
        elif o.status == "undecided":
            undecided.append(o)

    n_proof = sum(1 for o in counted if o.kind == "proof")
    n_proof_ok = sum(1 for o in counted if o.kind == "proof" and o.status == "discharged")
    n_bounded = sum(1 for o in counted if o.kind == "bounded")
    n_bounded_ok = sum(1 for o in counted if o.kind == "bounded" and o.status == "discharged")
    solver_s = sum(o.seconds for o in obs)

    for o, k in known_printed:
        print(f"KNOWN-FINDING: property={prop} {o.key()} {k['text']}")

    rc = 0
    replay_paths = []
    if violations:
        rc = 1
        os.makedirs(os.path.join(VERIF, "replays"), exist_ok=True)
        for o in violations:
            ts = time.strftime("%Y%m%d-%H%M%S")
            path = os.path.join(VERIF, "replays", f"{prop}-{o.unit}-{o.name}-{ts}.json")
            rep = {"property": prop, "obligation": o.key(), "backend": o.backend,
                   "contract": o.contract, "functions": o.functions,
                   "failed_checks": o.detail, "verifier_output_tail": o.output[-6000:],
                   "counterexample": o.playback, "replayed_on_real_code": None}
            suffix = " no-failing-input-found"
            rp = (o.playback or {}).get("replay") if isinstance(o.playback, dict) else None
            if rp:
                rep["replayed_on_real_code"] = rp
                if rp.get("input_found"):
                    suffix = ""
            if replay_builder is not None:
                try:
                    r = replay_builder(o)
                    if r:
                        rep["replayed_on_real_code"] = r
                        if r.get("input_found"):
                            suffix = ""
                except Exception as ex:  # replay is best effort, verdict does not depend on it
                    rep["replay_error"] = repr(ex)
            write(path, json.dumps(rep, indent=1))
            replay_paths.append(path)
            print(f"VIOLATION property={prop} replay={path}{suffix}")
    elif undecided or vacuity_problems:
        rc = 2
        for o in undecided:
            log(f"UNDECIDED (machinery): {o.key()}: {o.detail[:300]}")
        for k in vacuity_problems:
            log(f"VACUOUS unit: canary {k} verified although it must fail")

    # the level is the one claimed in MANIFEST.json (vlib/manifest_data.py); `proof` is only
    # claimed where complete proofs dominate, bounded obligations are always reported separately
    try:
        from . import manifest_data as _md
        level = _md.CHECKS[prop]["category"]
    except Exception:
        level = "proof" if (n_proof > 0 and n_proof >= n_bounded) else "other"
    cov = {
        "obligations": n_proof,
        "discharged": n_proof_ok,
        "bounded_obligations": n_bounded,
        "bounded_discharged": n_bounded_ok,
        "bounds": sorted({f"{o.key()}: {o.bound}" for o in counted if o.kind == "bounded" and o.bound}),
        "known_finding_obligations": [o.key() for o, _ in known_printed],
        "canaries_failing_as_required": sum(1 for o in obs if o.kind == "canary" and o.status == "failed"),
        "checker_cmd": checker_cmd,
        "trusted_base": trusted_base,
        "solver_seconds_total": round(solver_s, 1),
        "units": units_meta,
        "obligation_results": [o.to_json() for o in obs],
        "samples": [o.to_json() for o in obs if o.contract][:6] or [o.to_json() for o in obs][:4],
        "explanation": explanation,
        "evaluations": len(obs),
        "distinct_nontrivial": len({o.key() for o in counted}),
        "rule": "one case = one named proof obligation generated from /repo's current source; "
                "non-trivial = has a postcondition beyond panic-freedom or is a panic-freedom "
                "obligation over a full input domain; canaries are not counted",
        "exhaustive": False,
        "undecided": [o.key() for o in undecided],
    }
    ev = {"property_id": prop, "tier": tier, "seed": seed, "level": level, "coverage": cov,
          "assumptions": assumptions, "wall_s": round(time.time() - t0, 1),
          "violations": len(violations)}
    write(os.path.join(os.environ.get("VERIF_EVIDENCE_DIR") or os.path.join(VERIF, "evidence"), f"{prop}.json"), json.dumps(ev, indent=1))
    log(f"[{prop}/{tier}] proof {n_proof_ok}/{n_proof}  bounded {n_bounded_ok}/{n_bounded}  "
        f"known-findings {len(known_printed)}  violations {len(violations)}  "
        f"undecided {len(undecided)}  wall {ev['wall_s']}s -> exit {rc}")
    return rc
