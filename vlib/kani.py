"""Run lists of Kani harnesses on a crate directory and turn the output into obligations."""
import os
import re

from .common import CACHE, NCPU, MachineryError, Ob, log, run

KANI_FLAGS = ["-Z", "function-contracts", "-Z", "stubbing", "-Z", "unstable-options"]


def _parse(out):
    """Returns {harness_fullname: (status, failed_checks_text, seconds)} from cargo-kani output
    (terse format, possibly multi-threaded)."""
    res = {}
    cur = {}          # thread -> harness
    lines = out.splitlines()
    i = 0
    single_cur = None
    while i < len(lines):
        ln = lines[i]
        m = re.match(r"(?:Thread (\d+): )?Checking harness ([\w:<>]+)\.\.\.", ln)
        if m:
            th = m.group(1) or "0"
            cur[th] = m.group(2)
            single_cur = m.group(2)
            i += 1
            continue
        m = re.match(r"(?:Thread (\d+): )?\s*$", ln)
        if m and i + 1 < len(lines) and lines[i + 1].startswith("VERIFICATION RESULT"):
            th = m.group(1) or "0"
            h = cur.get(th, single_cur)
            blk = []
            j = i + 1
            while j < len(lines) and not lines[j].startswith("Verification Time"):
                if re.match(r"Thread \d+: ", lines[j]) and j > i + 1:
                    break
                blk.append(lines[j])
                j += 1
            secs = 0.0
            if j < len(lines):
                mt = re.match(r"Verification Time: ([\d.]+)s", lines[j])
                if mt:
                    secs = float(mt.group(1))
            text = "\n".join(blk)
            if "VERIFICATION:- SUCCESSFUL" in text:
                st = "discharged"
            elif "VERIFICATION:- FAILED" in text:
                st = "failed"
            else:
                st = "undecided"
            fails = "\n".join(l for l in blk if l.startswith("Failed Checks:") or l.strip().startswith("File:"))
            # unwinding assertion failures / unsupported constructs are machinery problems
            if st == "failed":
                fc = [l for l in blk if l.startswith("Failed Checks:")]
                if fc and all(("unwinding assertion" in l) or ("is not currently supported by Kani" in l)
                              or ("not supported" in l and "Kani" in l) for l in fc):
                    st = "undecided"
                if "CBMC failed" in text or "timed out" in text.lower():
                    st = "undecided"
            if h:
                res[h] = (st, fails, secs)
            i = j + 1
            continue
        i += 1
    return res


def run_harnesses(crate_dir, specs, unit, target_name, jobs=None, timeout=3600, harness_timeout="15m",
                  extra_flags=(), solver=None):
    """specs: list of dicts {name, kind, contract, functions, bound, expect_fail, known}
    `name` is the harness function name (matched as a suffix of the fully qualified name).
    Returns list[Ob] in the order of specs."""
    jobs = jobs or min(NCPU, max(1, len(specs)))
    target = os.path.join(CACHE, "target-" + target_name)
    os.makedirs(target, exist_ok=True)
    cmd = ["cargo", "kani"] + KANI_FLAGS + list(extra_flags) + ["--output-format", "terse", "-j", str(jobs),
                                                             "--harness-timeout", harness_timeout,
                                                             "--target-dir", target]
    if solver:
        cmd += ["--solver", solver]
    for s in specs:
        cmd += ["--harness", s["name"]]
    rc, out, secs = run(cmd, cwd=crate_dir, timeout=timeout)
    backend = f"kani 0.68 / cbmc 6.11 ({solver or 'cadical'})"
    parsed = _parse(out)
    if rc is None:
        log(f"[{unit}] cargo kani timed out after {timeout}s")
    if not parsed:
        # compile error / ICE: machinery problem for every obligation
        tail = out[-3000:]
        raise MachineryError(f"cargo kani produced no harness results for unit {unit} (rc={rc}):\n{tail}")
    obs = []
    for s in specs:
        hits = [(k, v) for k, v in parsed.items() if k == s["name"] or k.endswith("::" + s["name"])]
        if len(hits) != 1:
            st, detail, hs = "undecided", f"harness result not found in kani output (matches: {len(hits)})", 0.0
        else:
            st, detail, hs = hits[0][1]
        obs.append(Ob(unit, s["name"], s.get("kind", "proof"), backend, st, hs, detail,
                      bound=s.get("bound"), contract=s.get("contract", ""),
                      functions=s.get("functions", ()), output=out if st != "discharged" and len(specs) == 1 else ""))
    return obs, " ".join(cmd[:12]) + " ... --harness <each>", out


def playback(crate_dir, harness, target_name, timeout=900):
    """Re-run one failing harness alone asking Kani for concrete values."""
    target = os.path.join(CACHE, "target-" + target_name)
    cmd = ["cargo", "kani"] + KANI_FLAGS + ["-Z", "concrete-playback", "--concrete-playback=print",
                                            "--target-dir", target, "--harness", harness]
    rc, out, secs = run(cmd, cwd=crate_dir, timeout=timeout)
    m = re.search(r"Concrete playback unit test for `[^`]*`:\n```\n(.*?)```", out, re.S)
    failed = "\n".join(l for l in out.splitlines() if l.startswith("Failed Checks:") or l.strip().startswith("File:"))
    return {"unit_test": m.group(1) if m else None, "failed_checks": failed, "output_tail": out[-4000:]}
