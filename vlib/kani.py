"""Run lists of Kani harnesses on a crate directory and turn the output into obligations."""
import os
import re

from .common import CACHE, NCPU, MachineryError, Ob, log, run

KANI_FLAGS = ["-Z", "function-contracts", "-Z", "stubbing", "-Z", "unstable-options"]


def _classify(blk):
    text = "\n".join(blk)
    secs = 0.0
    mt = re.search(r"Verification Time: ([\d.]+)s", text)
    if mt:
        secs = float(mt.group(1))
    if "CBMC failed" in text or "CBMC timed out" in text or "out of memory" in text:
        return "undecided", "CBMC failed / timed out / out of memory", secs
    if "VERIFICATION:- SUCCESSFUL" in text:
        st = "discharged"
    elif "VERIFICATION:- FAILED" in text:
        st = "failed"
    else:
        return None
    fails = "\n".join(l for l in blk if l.startswith("Failed Checks:") or l.strip().startswith("File:"))
    if st == "failed":
        fc = [l for l in blk if l.startswith("Failed Checks:")]
        # unwinding assertion failures / unsupported constructs are machinery problems, not violations
        if fc and all(("unwinding assertion" in l) or ("is not currently supported by Kani" in l)
                      or ("not supported" in l and "Kani" in l) for l in fc):
            st = "undecided"
    return st, fails, secs


def _parse(out):
    """Returns {harness_fullname: (status, failed_checks_text, seconds)} from cargo-kani output
    (terse format, possibly multi-threaded: every block is introduced by `Thread N: ...`)."""
    res = {}
    cur = {}          # thread -> harness
    blocks = []       # (thread, [lines])
    th = "0"
    blk = None
    for ln in out.splitlines():
        m = re.match(r"Thread (\d+): ?(.*)$", ln)
        if m:
            th = m.group(1)
            rest = m.group(2)
            blk = [rest]
            blocks.append((th, blk))
            continue
        if re.match(r"Checking harness ", ln):
            blk = [ln]
            blocks.append(("0", blk))
            continue
        if blk is not None:
            blk.append(ln)
    for th, blk in blocks:
        m = re.match(r"Checking harness ([\w:<>]+)\.\.\.", blk[0])
        if m:
            cur[th] = m.group(1)
            if len(blk) == 1:
                continue
        c = _classify(blk)
        if c and th in cur:
            res[cur[th]] = c
    return res


def run_harnesses(crate_dir, specs, unit, target_name, jobs=None, timeout=3600, harness_timeout="15m",
                  extra_flags=(), solver=None):
    """specs: list of dicts {name, kind, contract, functions, bound, expect_fail, known}
    `name` is the harness function name (matched as a suffix of the fully qualified name).
    Returns list[Ob] in the order of specs."""
    jobs = jobs or min(NCPU, max(1, len(specs)))
    target = os.path.join(CACHE, "target-" + target_name)
    os.makedirs(target, exist_ok=True)
    cmd = ["cargo", "kani"] + KANI_FLAGS + list(extra_flags) + ["--output-format", "terse", "-j", str(jobs),
                                                             "--harness-timeout", harness_timeout,
                                                             "--target-dir", target]
    if solver:
        cmd += ["--solver", solver]
    for s in specs:
        cmd += ["--harness", s["name"]]
    rc, out, secs = run(cmd, cwd=crate_dir, timeout=timeout)
    backend = f"kani 0.68 / cbmc 6.11 ({solver or 'cadical'})"
    parsed = _parse(out)
    if rc is None:
        log(f"[{unit}] cargo kani timed out after {timeout}s")
    if not parsed:
        # compile error / ICE: machinery problem for every obligation
        tail = out[-3000:]
        raise MachineryError(f"cargo kani produced no harness results for unit {unit} (rc={rc}):\n{tail}")
    obs = []
    for s in specs:
        hits = [(k, v) for k, v in parsed.items() if k == s["name"] or k.endswith("::" + s["name"])]
        if len(hits) != 1:
            st, detail, hs = "undecided", f"harness result not found in kani output (matches: {len(hits)})", 0.0
        else:
            st, detail, hs = hits[0][1]
        obs.append(Ob(unit, s["name"], s.get("kind", "proof"), backend, st, hs, detail,
                      bound=s.get("bound"), contract=s.get("contract", ""),
                      functions=s.get("functions", ()), output=out if st != "discharged" and len(specs) == 1 else ""))
    return obs, " ".join(cmd[:12]) + " ... --harness <each>", out


def playback(crate_dir, harness, target_name, timeout=240):
    """Re-run one failing harness alone asking Kani for concrete values."""
    target = os.path.join(CACHE, "target-" + target_name)
    cmd = ["cargo", "kani"] + KANI_FLAGS + ["-Z", "concrete-playback", "--concrete-playback=print",
                                            "--target-dir", target, "--harness", harness]
    rc, out, secs = run(cmd, cwd=crate_dir, timeout=timeout)
    m = re.search(r"Concrete playback unit test for `[^`]*`:\n```\n(.*?)```", out, re.S)
    failed = "\n".join(l for l in out.splitlines() if l.startswith("Failed Checks:") or l.strip().startswith("File:"))
    return {"unit_test": m.group(1) if m else None, "failed_checks": failed, "output_tail": out[-4000:]}


def attach_counterexamples(obs, crate_dir, target_name, out, limit=2):
    """For failed obligations: ask Kani for concrete values (one harness at a time) and replay
    them natively against the real function bodies (vlib/replay.py). Best effort: the verdict
    never depends on it."""
    from . import replay as _replay
    n = 0
    for o in obs:
        if o.status == "failed" and o.kind in ("proof", "bounded"):
            o.output = out[-6000:]
            n += 1
            if n > limit:
                continue
            try:
                o.playback = playback(crate_dir, o.name, target_name)
                vals = _replay.parse_concrete_vals(o.playback.get("unit_test"))
                o.playback["replay"] = _replay.native_replay(crate_dir, o.name, vals, target_name)
            except Exception as ex:  # pragma: no cover
                o.playback = {"error": repr(ex)}
