"""Engine E3: run `verus file.rs --output-json --time` and turn per-function results into obligations."""
import json
import os
import re

from .common import MachineryError, Ob, run
from .extract import _body_open


def inject_fn_contract(fn_text, spec_lines, result_name="r"):
    """`fn f(..) -> T { body }`  =>  `fn f(..) -> (r: T)\n    requires/ensures ...\n{ body }`.
    The body is untouched."""
    ob = _body_open(fn_text, 0)
    header, body = fn_text[:ob].rstrip(), fn_text[ob:]
    m = re.search(r"->\s*([^\n{]+?)\s*$", header)
    if m and result_name:
        header = header[:m.start()] + f"-> ({result_name}: {m.group(1).strip()})"
    spec = "".join("\n        " + l for l in spec_lines)
    return header + spec + "\n    " + body


def inject_loop_invariant(fn_text, ordinal, invariant_lines):
    """D4: the n-th `for x in e {` of the function becomes `for x in it: e  invariant ... {`."""
    ms = list(re.finditer(r"for\s+(\w+)\s+in\s+([^{\n]+?)\s*\{", fn_text))
    if ordinal >= len(ms):
        raise MachineryError("loop anchor lost")
    m = ms[ordinal]
    inv = "\n                invariant" + "".join("\n                    " + l for l in invariant_lines) + "\n            {"
    return fn_text[:m.start()] + f"for {m.group(1)} in it: {m.group(2)}" + inv + fn_text[m.end():]


def run_verus(path, unit, specs, timeout=600):
    """specs: {function_suffix: dict(kind, contract, functions)}; returns list[Ob]."""
    rc, out, secs = run(["verus", path, "--output-json", "--time"], cwd=os.path.dirname(path), timeout=timeout)
    # stdout and stderr are merged: the JSON object is the last top-level {...}
    i = out.find('{\n  "verification-results"')
    if i < 0:
        i = out.find("{")
    try:
        data = json.loads(out[out.index("{", i):out.rindex("}") + 1])
    except Exception:
        raise MachineryError(f"verus produced no JSON (rc={rc}): {out[-1500:]}")
    vr = data.get("verification-results", {})
    if vr.get("encountered-vir-error") or (vr.get("encountered-error") and not vr.get("errors")):
        raise MachineryError(f"verus rejected the unit (unsupported construct / syntax): {out[:3000]}")
    per = {}
    for m in data.get("times-ms", {}).get("smt", {}).get("smt-run-module-times", []):
        for f in m.get("function-breakdown", []):
            per[f["function"]] = f
    obs = []
    for name, sp in specs.items():
        hits = [v for k, v in per.items() if k.endswith("::" + name) or k == name]
        if len(hits) != 1:
            obs.append(Ob(unit, name, sp.get("kind", "proof"), "verus 0.2026.09.13 / z3", "undecided", 0.0, "function not in verus report",
                          contract=sp.get("contract", ""), functions=sp.get("functions", ())))
            continue
        f = hits[0]
        st = "discharged" if f.get("success") else "failed"
        detail = ""
        if st == "failed":
            # the error text for this function
            detail = "\n".join(l for l in out.splitlines() if "error" in l.lower())[:800]
            if "resource limit (rlimit) exceeded" in out.lower() or "rlimit exceeded" in out.lower():
                st = "undecided"
        obs.append(Ob(unit, name, sp.get("kind", "proof"), "verus 0.2026.09.13 / z3", st, f.get("time-micros", 0) / 1e6, detail,
                      contract=sp.get("contract", ""), functions=sp.get("functions", ()), output=out[:6000] if st != "discharged" else ""))
    return obs, f"verus {os.path.basename(path)} --output-json --time", out
