#!/usr/bin/env python3
"""Move confirmed incoming seeds to seeded/<ID>-<k>/ and write meta.json.
usage: tools/register_seeds.py <offset> <ID>/<n>=<caught_by or MISSED: reason> ..."""
import json, os, re, shutil, sys
V = "/verif/seeded"
off = int(sys.argv[1])
for spec in sys.argv[2:]:
    sid, caught = spec.split("=", 1)
    pid, n = sid.split("/")
    src = os.path.join(V, "_incoming", pid, n)
    dst = os.path.join(V, f"{pid}-{int(n) + off}")
    if not os.path.isdir(src):
        print("missing", src); continue
    conf = json.load(open(os.path.join(src, "confirm.json")))
    if not conf.get("confirmed"):
        print("NOT confirmed:", sid); continue
    if os.path.exists(dst):
        shutil.rmtree(dst)
    shutil.move(src, dst)
    notes = open(os.path.join(dst, "notes.md"), errors="replace").read()
    def sect(pats):
        for p in pats:
            m = re.search(p, notes, re.I | re.S)
            if m:
                return re.sub(r"\s+", " ", m.group(1)).strip()[:700]
        return ""
    what = sect([r"#+\s*(?:Site|Change|File)[^\n]*\n(.*?)(?=\n#+\s)", r"(?:\*\*)?(?:Site|File / function|File)(?:\*\*)?\s*:?\s*(.*?)\n\n"]) or notes[:400].replace("\n", " ")
    needs = sect([r"#+\s*(?:What is needed|Trigger|What it needs|Needs)[^\n]*\n(.*?)(?=\n#+\s|\Z)", r"(?:\*\*)?(?:Trigger|needed for it to manifest)(?:\*\*)?\s*:?\s*(.*?)\n\n"])
    meta = {
        "property": pid,
        "what": what,
        "needs_to_manifest": needs or "see notes.md",
        "confirmed_by_me": True,
        "what_i_ran": {
            "worktree": "/tmp/seed2/C01 (scratch git worktree of /repo at d2851148, removed afterwards)",
            "demo_cmds": conf.get("demo_cmds"),
            "demo_without_patch": conf.get("without_patch"),
            "demo_with_patch": conf.get("with_patch"),
            "output_without_patch": [t[-400:] for t in conf.get("without_patch_tail", [])],
            "output_with_patch": [t[-600:] for t in conf.get("with_patch_tail", [])],
            "existing_lib_tests_with_patch": conf.get("existing_tests_with_patch"),
            "check_run": f"tools/tryseed.sh <scratch worktree> seeded/{pid}-{int(n) + off} {pid}   (patch applied in a scratch worktree, check run with VERIF_REPO pointing at it)",
        },
        "caught_by": caught,
        "author": "independent sub-agent given only the property text and its own scratch worktree (round 2)",
    }
    json.dump(meta, open(os.path.join(dst, "meta.json"), "w"), indent=1)
    print("registered", dst, "->", caught[:80])
