#!/usr/bin/env python3
"""dev helper: python3 tools/rununit.py <unit> [tier] [prop]  - run one unit, print obligation results (no evidence written)"""
import importlib, os, sys
sys.path.insert(0, os.path.dirname(os.path.dirname(os.path.abspath(__file__))))
from vlib.common import Scratch
u = sys.argv[1]; tier = sys.argv[2] if len(sys.argv) > 2 else "quick"; prop = sys.argv[3] if len(sys.argv) > 3 else None
mod = importlib.import_module(f"units.{u}.unit")
with Scratch(f"dev-{u}") as sc:
    obs, meta, cmd = mod.run_for(sc, tier, prop) if (prop and hasattr(mod, "run_for")) else mod.run_unit(sc, tier)
for o in obs:
    print(f"{o.status:11s} {o.kind:8s} {o.seconds:7.1f}s {o.name}  {o.detail[:300] if o.status!='discharged' else ''}")
