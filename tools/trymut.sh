#!/bin/bash
# usage: tools/trymut.sh <patch-file> <PROP> [tier]   — apply a patch to /repo, run the check, undo.
set -u
P="$1"; PROP="$2"; TIER="${3:-quick}"
cd /repo || exit 9
if ! git apply --check "$P" 2>/dev/null; then echo "patch does not apply: $P"; exit 9; fi
git apply "$P"
cd /verif
./check "$PROP" "$TIER" 2>&1 | grep -E "VIOLATION|KNOWN-FINDING|machinery|UNDECIDED|\] proof|internal" | cut -c1-400
rc=${PIPESTATUS[0]}
git -C /repo checkout -- . 
git -C /verif checkout -- evidence 2>/dev/null
echo "exit=$rc"
