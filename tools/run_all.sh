#!/bin/bash
# usage: tools/run_all.sh [parallelism]  - every claimed property's quick check on /repo's working tree; summary lines to stdout
cd /verif
P=${1:-3}
printf "%s\n" C05 C10 C01 C03 C04 C06 C07 C09 C12 C15 C17 C19 C20 | xargs -P "$P" -I{} bash -c './check {} quick > /var/tmp/runall-{}.log 2>&1; echo "{} exit=$? $(grep -E "^\[{}/quick\]" /var/tmp/runall-{}.log | tail -1)"'
