#!/bin/bash
# usage: tools/tryseed.sh <worktree> <seed-dir> <PROP> [tier]  - apply a seed's patch.diff in a scratch worktree of /repo,
# run the check against that worktree (VERIF_REPO), undo. /repo itself is not touched.
set -u
WT="$1"; D="$2"; PROP="$3"; TIER="${4:-quick}"
cd "$WT" || exit 9
git checkout -q -- . 
if ! git apply --check "$D/patch.diff" 2>/dev/null; then echo "patch does not apply: $D"; exit 9; fi
git apply "$D/patch.diff"
cd /verif
mkdir -p /var/tmp/tryseed-evidence; VERIF_EVIDENCE_DIR=/var/tmp/tryseed-evidence VERIF_REPO="$WT" ./check "$PROP" "$TIER" 2>&1 | grep -E "VIOLATION|KNOWN-FINDING|machinery|UNDECIDED|\] proof|internal|failed " | cut -c1-300
rc=${PIPESTATUS[0]}
git -C "$WT" checkout -q -- .
echo "exit=$rc"
