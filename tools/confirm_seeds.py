#!/usr/bin/env python3
"""Confirm incoming seeded changes in ONE scratch worktree (outside /repo and /verif):
for each seed: demo fails with the patch, passes without it, and the existing lib tests of the
touched crates still pass with the patch. Writes /verif/seeded/_incoming/<ID>/<n>/confirm.json.
usage: tools/confirm_seeds.py <worktree> <ID>/<n> [...]"""
import json, os, re, subprocess, sys, time

WT = sys.argv[1]
ENV = dict(os.environ, CARGO_NET_OFFLINE="true", STEEL_HOME=os.path.join(WT, "home"))
os.makedirs(ENV["STEEL_HOME"], exist_ok=True)


def sh(cmd, timeout=3600):
    p = subprocess.run(cmd, shell=True, cwd=WT, env=ENV, stdout=subprocess.PIPE, stderr=subprocess.STDOUT, text=True, errors="replace", timeout=timeout)
    return p.returncode, p.stdout


def clean():
    sh("git checkout -- . && git clean -fdq crates libs src tests 2>/dev/null")


def demo_cmds(d):
    cmds = []
    dd = os.path.join(d, "demo.diff")
    if os.path.exists(dd):
        t = open(dd).read()
        files = re.findall(r"^\+\+\+ b/(\S+)", t, re.M)
        names = re.findall(r"^\+\s*#\[test\]\s*\n(?:\+[^\n]*\n)*?\+\s*(?:pub\s+)?fn\s+(\w+)", t, re.M)
        for f in files:
            m = re.match(r"crates/([\w-]+)/tests/(\w+)\.rs", f)
            if m:
                feat = " --features jit2,sync" if ("jit" in open(os.path.join(d, "notes.md")).read().lower() and m.group(1) == "steel-core" and "STEEL_JIT" in open(os.path.join(d, "notes.md")).read()) else ""
                cmds.append(f"cargo test --offline -j 6 -p {m.group(1)} --test {m.group(2)} -- --test-threads 1")
        if not cmds and names:
            crate = re.match(r"crates/([\w-]+)/", files[0]).group(1) if files else "steel-core"
            cmds.append(f"cargo test --offline -j 6 -p {crate} --lib -- --test-threads 1 " + " ".join(sorted(set(names))))
    ds = os.path.join(d, "demo.scm")
    if os.path.exists(ds) and not cmds:
        cmds.append(f"cargo build --offline -j 6 -p steel-interpreter 2>&1 | tail -1; timeout 600 ./target/debug/steel {ds}; echo EXIT=$?")
    return cmds


def verdict(out, rc):
    bad = rc != 0 or re.search(r"test result: FAILED|FAIL\b|WRONG|corrupted: [1-9]|panicked|EXIT=[1-9]", out) is not None
    return "fail" if bad else "pass"


for spec in sys.argv[2:]:
    d = os.path.join("/verif/seeded/_incoming", spec)
    res = {"seed": spec, "at": time.strftime("%Y-%m-%d %H:%M:%S")}
    try:
        clean()
        patch = os.path.join(d, "patch.diff")
        rc, o = sh(f"git apply --check {patch}")
        if rc != 0:
            res["error"] = "patch does not apply to current HEAD: " + o[-300:]
            json.dump(res, open(os.path.join(d, "confirm.json"), "w"), indent=1)
            print(spec, res["error"]); continue
        if os.path.exists(os.path.join(d, "demo.diff")):
            sh(f"git apply {os.path.join(d, 'demo.diff')}")
        cmds = demo_cmds(d)
        res["demo_cmds"] = cmds
        # without patch
        outs = [sh(c) for c in cmds]
        res["without_patch"] = [verdict(o, rc) for rc, o in outs]
        res["without_patch_tail"] = [o[-600:] for rc, o in outs]
        # with patch
        sh(f"git apply {patch}")
        outs = [sh(c) for c in cmds]
        res["with_patch"] = [verdict(o, rc) for rc, o in outs]
        res["with_patch_tail"] = [o[-900:] for rc, o in outs]
        # existing tests with patch (demo removed)
        clean()
        sh(f"git apply {patch}")
        touched = set(re.findall(r"^\+\+\+ b/crates/([\w-]+)/", open(patch).read(), re.M))
        ex = {}
        for c in sorted(touched | {"steel-core"}):
            rc, o = sh(f"cargo test --offline -j 6 -p {c} --lib -- --test-threads 4 2>&1 | grep -E '^test result|FAILED' | head -5")
            ex[c] = o.strip()
        res["existing_tests_with_patch"] = ex
        res["confirmed"] = bool(cmds) and all(v == "pass" for v in res["without_patch"]) and any(v == "fail" for v in res["with_patch"]) \
            and all("FAILED" not in v and "ok." in v for v in ex.values())
    except Exception as e:
        res["error"] = repr(e)
    finally:
        clean()
    json.dump(res, open(os.path.join(d, "confirm.json"), "w"), indent=1)
    print(spec, "confirmed" if res.get("confirmed") else "NOT CONFIRMED", res.get("without_patch"), res.get("with_patch"), flush=True)
