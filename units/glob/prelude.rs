// Environment prelude of unit `glob` (C06, engine E2). HAND-WRITTEN AND TRUSTED.
// Restated here (NOT verified):
//   * InternedString as a Copy newtype over u32 (the real one indexes a global interner)
//   * FxHashMap / HashSet as EXACT finite-map / finite-set models over a Vec with linear search
//     (assumed contract of hashbrown: CBMC cannot execute the real tables, measured)
//   * SteelVal reduced to the variants `push_back` / `visit_closure` mention; Gc never frees
//   * ByteCodeLambda with the four fields the recycler reads (captures, contract, body_exp, header)
//   * Heap with no-op mark_all_unreachable / recount (the heap side is units `heap`)
//   * GlobalSlotRecycler::visit reduced to its loop + the Closure arm (other value kinds are not walked)
// REAL (not restated): OpCode (path dependency on crates/steel-gen), u24 and DenseInstruction
// (extracted from core/instructions.rs).
#![allow(dead_code, unused_imports, unused_macros, unused_variables)]

pub use steel_gen::opcode::{OpCode, MAX_OPCODE_SIZE, OPCODES_ARRAY};

#[derive(Clone, Copy, Debug, PartialEq, Eq)]
pub enum ErrorKind {
    FreeIdentifier,
    Generic,
}
#[derive(Clone, Copy, Debug, PartialEq, Eq)]
pub struct SteelErr {
    pub kind: ErrorKind,
}
pub type Result<T> = core::result::Result<T, SteelErr>;
macro_rules! throw {
    ($type:ident => $($rest:tt)+) => {
        || $crate::prelude::SteelErr { kind: $crate::prelude::ErrorKind::$type }
    };
}
pub(crate) use throw;

#[derive(Clone, Copy, Debug, PartialEq, Eq, Hash)]
pub struct InternedString(pub u32);
impl InternedString {
    pub fn resolve(&self) -> &str {
        ""
    }
}

// ------------------------------------------------------------ exact finite map / set models
#[derive(Clone, Debug)]
pub struct FxHashMap<K, V> {
    pub entries: Vec<(K, V)>,
}
impl<K, V> Default for FxHashMap<K, V> {
    fn default() -> Self {
        FxHashMap { entries: Vec::new() }
    }
}
impl<K: PartialEq + Copy, V: Copy> FxHashMap<K, V> {
    pub fn insert(&mut self, k: K, v: V) -> Option<V> {
        let mut i = 0;
        while i < self.entries.len() {
            if self.entries[i].0 == k {
                let old = self.entries[i].1;
                self.entries[i].1 = v;
                return Some(old);
            }
            i += 1;
        }
        self.entries.push((k, v));
        None
    }
    pub fn get(&self, k: &K) -> Option<&V> {
        let mut i = 0;
        while i < self.entries.len() {
            if self.entries[i].0 == *k {
                return Some(&self.entries[i].1);
            }
            i += 1;
        }
        None
    }
    pub fn contains_key(&self, k: &K) -> bool {
        self.get(k).is_some()
    }
    pub fn remove(&mut self, k: &K) -> Option<V> {
        let mut i = 0;
        while i < self.entries.len() {
            if self.entries[i].0 == *k {
                let (_, v) = self.entries.swap_remove(i);
                return Some(v);
            }
            i += 1;
        }
        None
    }
    pub fn len(&self) -> usize {
        self.entries.len()
    }
}

#[derive(Clone, Debug, PartialEq, Eq)]
pub struct HashSet<K> {
    pub items: Vec<K>,
}
impl<K> Default for HashSet<K> {
    fn default() -> Self {
        HashSet { items: Vec::new() }
    }
}
impl<K: PartialEq + Copy> HashSet<K> {
    pub fn insert(&mut self, k: K) -> bool {
        if self.contains(&k) {
            false
        } else {
            self.items.push(k);
            true
        }
    }
    pub fn contains(&self, k: &K) -> bool {
        let mut i = 0;
        while i < self.items.len() {
            if self.items[i] == *k {
                return true;
            }
            i += 1;
        }
        false
    }
    pub fn remove(&mut self, k: &K) -> bool {
        let mut i = 0;
        while i < self.items.len() {
            if self.items[i] == *k {
                self.items.swap_remove(i);
                return true;
            }
            i += 1;
        }
        false
    }
    pub fn clear(&mut self) {
        self.items.clear()
    }
    pub fn is_empty(&self) -> bool {
        self.items.is_empty()
    }
    pub fn len(&self) -> usize {
        self.items.len()
    }
    pub fn drain(&mut self) -> std::vec::Drain<'_, K> {
        self.items.drain(..)
    }
    pub fn new() -> Self {
        HashSet { items: Vec::new() }
    }
    pub fn iter(&self) -> core::slice::Iter<'_, K> {
        self.items.iter()
    }
}

// ------------------------------------------------------------ values
pub struct Gc<T> {
    // a shared pointer that never frees: a leaked allocation addressed by a raw pointer
    ptr: *const T,
}
impl<T> Gc<T> {
    pub fn new(v: T) -> Self {
        Gc { ptr: Box::leak(Box::new(v)) as *const T }
    }
}
impl<T> Clone for Gc<T> {
    fn clone(&self) -> Self {
        Gc { ptr: self.ptr }
    }
}
impl<T> core::ops::Deref for Gc<T> {
    type Target = T;
    fn deref(&self) -> &T {
        unsafe { &*self.ptr }
    }
}

#[derive(Clone)]
pub enum SteelVal {
    Closure(Gc<ByteCodeLambda>),
    Pair(Gc<Pair>),
    BoolV(bool),
    NumV(f64),
    IntV(isize),
    CharV(char),
    Void,
    StringV(()),
    FuncV(()),
    SymbolV(()),
    FutureFunc(()),
    FutureV(()),
    BoxedFunction(()),
    MutFunc(()),
    BuiltIn(()),
    ByteVector(()),
    BigNum(()),
}

pub struct ByteCodeLambda {
    pub captures: core::mem::ManuallyDrop<Vec<SteelVal>>,
    pub contract: Option<SteelVal>,
    pub body_exp: core::mem::ManuallyDrop<Vec<crate::x_instructions::DenseInstruction>>,
    pub header: Option<OpCode>,
}
impl ByteCodeLambda {
    pub fn captures(&self) -> &[SteelVal] {
        &self.captures
    }
    pub fn get_contract_information(&self) -> Option<SteelVal> {
        self.contract.clone()
    }
}

/// the two heap free lists only record the order of the calls the recycler makes on them
#[derive(Default)]
pub struct HeapFreeList {
    pub reset_marks: u8,
    pub recounted_after_reset: u8,
}
impl HeapFreeList {
    pub fn mark_all_unreachable(&mut self) {
        self.reset_marks += 1;
    }
    pub fn recount(&mut self) {
        if self.reset_marks > 0 {
            self.recounted_after_reset += 1;
        }
    }
}
#[derive(Default)]
pub struct Heap {
    pub memory_free_list: HeapFreeList,
    pub vector_free_list: HeapFreeList,
}

// ---- payloads of the container kinds whose recycler arms are under contract (same models as units/heap/prelude.rs)
#[derive(Clone)]
pub struct SteelHashMap(pub Gc<Vec<(SteelVal, SteelVal)>>);
impl SteelHashMap {
    pub fn iter(&self) -> impl Iterator<Item = (&SteelVal, &SteelVal)> {
        self.0.iter().map(|(k, v)| (k, v))
    }
}
#[derive(Clone)]
pub struct SteelHashSet(pub Gc<Vec<SteelVal>>);
impl SteelHashSet {
    pub fn iter(&self) -> core::slice::Iter<'_, SteelVal> {
        self.0.iter()
    }
}
#[derive(Clone)]
pub struct SteelVector(pub Gc<Vec<SteelVal>>);
impl SteelVector {
    pub fn iter(&self) -> core::slice::Iter<'_, SteelVal> {
        self.0.iter()
    }
}
#[derive(Clone)]
pub struct List<T>(pub Gc<Vec<T>>);
impl<T: Clone> IntoIterator for List<T> {
    type Item = T;
    type IntoIter = std::vec::IntoIter<T>;
    fn into_iter(self) -> Self::IntoIter {
        (*self.0).clone().into_iter()
    }
}
pub struct UserDefinedStruct {
    pub fields: Vec<SteelVal>,
}
pub struct LazyStream {
    pub initial_value: SteelVal,
    pub stream_thunk: SteelVal,
}
pub struct Pair {
    pub car: SteelVal,
    pub cdr: SteelVal,
}
impl Pair {
    pub fn car(&self) -> SteelVal {
        self.car.clone()
    }
    pub fn cdr(&self) -> SteelVal {
        self.cdr.clone()
    }
}
pub mod lists {
    pub use super::Pair;
}
pub struct MutContainer<T>(pub core::cell::RefCell<T>);
impl<T> MutContainer<T> {
    pub fn read(&self) -> core::cell::Ref<'_, T> {
        self.0.borrow()
    }
}
pub type GcMut<T> = Gc<MutContainer<T>>;

/// the visitor trait reduced to the methods the recycler unit uses
pub trait BreadthFirstSearchSteelValVisitor {
    type Output;
    fn visit_closure(&mut self, closure: Gc<ByteCodeLambda>) -> Self::Output;
    fn push_back(&mut self, value: SteelVal);
    fn visit(&mut self) -> Self::Output;
    fn visit_hash_map(&mut self, hashmap: SteelHashMap) -> Self::Output;
    fn visit_hash_set(&mut self, hashset: SteelHashSet) -> Self::Output;
    fn visit_immutable_vector(&mut self, vector: SteelVector) -> Self::Output;
    fn visit_list(&mut self, list: List<SteelVal>) -> Self::Output;
    fn visit_steel_struct(&mut self, steel_struct: Gc<UserDefinedStruct>) -> Self::Output;
    fn visit_stream(&mut self, stream: Gc<LazyStream>) -> Self::Output;
    fn visit_pair(&mut self, pair: Gc<lists::Pair>) -> Self::Output;
    fn visit_boxed_value(&mut self, boxed_value: GcMut<SteelVal>) -> Self::Output;
}
