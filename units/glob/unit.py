"""Unit `glob` (C06, engine E2): SymbolMap (compiler/map.rs) and GlobalSlotRecycler (values/closed.rs)."""
import os
import re
import shutil

from vlib.common import REPO, VERIF, AnchorLost, MachineryError, read, write, sha256, scan_assumptions, repo_file
from vlib.extract import Extractor
from vlib import kani

NAME = "glob"
MAP = "crates/steel-core/src/compiler/map.rs"
CLOSED = "crates/steel-core/src/values/closed.rs"
INSTR = "crates/steel-core/src/core/instructions.rs"
VM = "crates/steel-core/src/steel_vm/vm.rs"

# opcodes whose payload the interpreter uses as an index into the global table (from the property:
# "no slot reuse makes an existing function call or read anything else"); cross-checked against vm.rs
GLOBAL_OPS = ["PUSH", "SET", "CALLGLOBAL", "CALLPRIMITIVE", "CALLGLOBALNOARITY", "CALLGLOBALTAIL",
              "CALLPRIMITIVETAIL", "CALLGLOBALTAILNOARITY"]
# VM arms that read the global index from the FOLLOWING instruction; the compiler pass that emits
# them is disabled in this revision (checked below), so they are outside the precondition
NEXT_PAYLOAD_OPS = ["READLOCAL0CALLGLOBAL", "READLOCAL1CALLGLOBAL"]
NOT_EMITTED = ["CALLPRIMITIVETAIL"] + NEXT_PAYLOAD_OPS


def cross_check_spec():
    """Every arm of VmCore::vm whose text passes its own payload to the global table must be in
    GLOBAL_OPS (else the spec is out of date -> exit 2). Opcodes assumed not to be emitted must not
    be assigned anywhere in the compiler."""
    vm = repo_file(VM)
    arms = re.findall(r"DenseInstruction\s*\{\s*op_code:\s*((?:OpCode::\w+\s*\|?\s*)+),\s*payload_size,\s*\.\.\s*\}\s*=>\s*(\{.{0,900}?|self\.\w+\(payload_size[^\n]*)", vm, re.S)
    found = set()
    for ops, body in arms:
        head = body[:700]
        if re.search(r"handle_(set|push|call_global\w*|tail_call_global\w*)\(\s*payload_size\.to_usize\(\)|repl_lookup_idx\(\s*payload_size\.to_usize\(\)", head):
            for o in re.findall(r"OpCode::(\w+)", ops):
                found.add(o)
    missing = found - set(GLOBAL_OPS)
    if missing:
        raise MachineryError(f"spec out of date: vm.rs uses the payload of {sorted(missing)} as a global index")
    if not found:
        raise AnchorLost("could not locate the global-table arms of VmCore::vm")
    comp = "".join(repo_file("crates/steel-core/src/compiler/" + f) for f in ["program.rs", "code_gen.rs"])
    for o in NOT_EMITTED:
        for m in re.finditer(r"^(.*)OpCode::" + o + r"\b", comp, re.M):
            line = m.group(0)
            if line.lstrip().startswith("//"):
                continue
            if re.search(r"op_code\s*=\s*OpCode::" + o, line) and "specialize_call_global_local" not in line:
                # assignment exists: is the enclosing pass called anywhere un-commented?
                if o in NEXT_PAYLOAD_OPS and not re.search(r"^\s*specialize_call_global_local\(", comp, re.M):
                    continue
                raise MachineryError(f"spec out of date: the compiler now emits {o}")
    return sorted(found)


def build(scratch):
    ex = Extractor()
    found_ops = cross_check_spec()
    m = ["const USE_LIFTED_LAMBDAS_AS_ROOTS: bool = " + ("false" if "USE_LIFTED_LAMBDAS_AS_ROOTS: bool = false" in ex.src(MAP) else "true") + ";",
         "#[derive(Default, Debug, PartialEq, Eq, Clone)] // real: + Serialize, Deserialize\n" + ex.item(MAP, "struct", "FreeList"),
         ex.impl_block(MAP, r"impl FreeList"),
         "#[derive(Debug, Clone)] // real: + Serialize, Deserialize\n" + ex.item(MAP, "struct", "SymbolMap"),
         ex.impl_block(MAP, r"impl SymbolMap")]
    if "USE_LIFTED_LAMBDAS_AS_ROOTS: bool = false" not in ex.src(MAP):
        raise AnchorLost("USE_LIFTED_LAMBDAS_AS_ROOTS changed")
    c = ["#[derive(Default)]\n" + ex.item(CLOSED, "struct", "GlobalSlotRecycler"),
         ex.impl_block(CLOSED, r"impl GlobalSlotRecycler"),
         ]
    vs, vob, vend = ex.impl_range(CLOSED, r"impl BreadthFirstSearchSteelValVisitor for GlobalSlotRecycler")
    c.append("impl BreadthFirstSearchSteelValVisitor for GlobalSlotRecycler {\n    type Output = ();\n\n    "
             + ex.fn(CLOSED, "visit_closure", within=(vob, vend)) + "\n\n    " + ex.fn(CLOSED, "push_back", within=(vob, vend)) + "\n\n    "
             + "\n\n    ".join(ex.fn(CLOSED, a, within=(vob, vend)) for a in ["visit_hash_map", "visit_hash_set", "visit_immutable_vector", "visit_list", "visit_steel_struct", "visit_stream", "visit_pair", "visit_boxed_value"])
             + "\n\n    // reduced form of the real `visit`: the same loop, Closure arm only (prelude, trusted)\n"
             "    fn visit(&mut self) -> Self::Output {\n        while let Some(value) = self.queue.pop() {\n            if self.slots.is_empty() {\n                return;\n            }\n"
             "            if let SteelVal::Closure(c) = value {\n                self.visit_closure(c)\n            }\n        }\n    }\n}\n")
    ins = ["#[derive(Copy, Clone, Debug, PartialEq, Eq, Hash)] // real: + Serialize, Deserialize\n" + ex.item(INSTR, "struct", "DenseInstruction"),
           "#[derive(Copy, Clone, PartialEq, PartialOrd, Eq, Ord, Hash, Debug)]\n#[allow(non_camel_case_types)]\n#[repr(transparent)]\n" + ex.item(INSTR, "struct", "u24"),
           ex.impl_block(INSTR, r"impl u24"), ex.impl_block(INSTR, r"impl DenseInstruction")]
    allow = "#![allow(dead_code, unused_imports, unused_variables, unreachable_patterns, unused_mut)]\n"
    crate = os.path.join(scratch, "globx")
    os.makedirs(os.path.join(crate, "src"))
    shutil.copy(os.path.join(REPO, "Cargo.lock"), os.path.join(crate, "Cargo.lock"))
    write(os.path.join(crate, "Cargo.toml"), f"""[package]
name = "globx"
version = "0.0.0"
edition = "2021"

[dependencies]
steel-gen = {{ path = "{REPO}/crates/steel-gen" }}

[workspace]

[lints.rust]
unexpected_cfgs = {{ level = "allow", check-cfg = ['cfg(kani)'] }}
""")
    prelude = read(os.path.join(VERIF, "units/glob/prelude.rs"))
    harness = read(os.path.join(VERIF, "units/glob/harness.rs"))
    write(os.path.join(crate, "src/prelude.rs"), prelude)
    write(os.path.join(crate, "src/x_map.rs"), allow + "// imports mirror compiler/map.rs\nuse crate::prelude::throw;\nuse crate::prelude::{InternedString, Result, FxHashMap, HashSet};\n\n" + "\n\n".join(m) +
          "\n\n#[cfg(kani)]\n#[path = \"harness_map.rs\"]\nmod harness;\n")
    write(os.path.join(crate, "src/x_closed.rs"), allow + "use crate::prelude::{BreadthFirstSearchSteelValVisitor, Gc, GcMut, Heap, HashSet, OpCode, SteelVal, ByteCodeLambda, SteelHashMap, SteelHashSet, SteelVector, List, UserDefinedStruct, LazyStream};\nuse crate::x_map::SymbolMap;\n\n" + "\n\n".join(c) +
          "\n#[cfg(kani)]\n#[path = \"harness_closed.rs\"]\nmod harness;\n")
    write(os.path.join(crate, "src/x_instructions.rs"), allow + "use crate::prelude::OpCode;\n\n" + "\n\n".join(ins) + "\n")
    hm, hc = harness.split("// ====SPLIT====\n")
    write(os.path.join(crate, "src/harness_map.rs"), hm)
    write(os.path.join(crate, "src/harness_closed.rs"), hc.replace("/*GLOBAL_OPS*/", " | ".join("OpCode::" + o for o in GLOBAL_OPS)))
    write(os.path.join(crate, "src/lib.rs"), "#![allow(dead_code, unused_imports, unused_macros)]\n#[macro_use]\npub mod prelude;\npub mod x_instructions;\npub mod x_map;\npub mod lists { pub use crate::prelude::Pair; }\npub mod x_closed;\n")
    meta = {"unit": NAME, "engine": "E2: verbatim item extraction into a mini crate + Kani",
            "items": ex.items, "prelude": "units/glob/prelude.rs", "prelude_sha256": sha256(prelude), "harness_sha256": sha256(harness),
            "spec_cross_check": {"global_index_arms_found_in_vm_rs": found_ops, "spec_list": GLOBAL_OPS, "assumed_not_emitted": NOT_EMITTED},
            "extractor_edits": "D1; D3 (visit_closure / push_back re-wrapped from the visitor trait impl into an inherent impl); derive lines restated without serde; real steel-gen crate used for OpCode",
            "assumption_scan": scan_assumptions(harness, "units/glob/harness.rs") + scan_assumptions(prelude, "units/glob/prelude.rs")}
    return crate, meta


BS = "7 reachable SymbolMap states (built with the real operations on <= 2 names) x any 2 further definitions of 3 names"
OBS = {}
for k in range(7):
    OBS[f"symbolmap_add_s{k}"] = dict(kind="bounded", bound=BS, functions=["SymbolMap::new", "SymbolMap::add", "SymbolMap::get", "FreeList::pop_next_free", "FreeList::add_shadowed"],
                                      contract="after add(id)->r: get(id)==r, values[r]==id, every other binding unchanged and != r (a live binding's slot is never handed out), a redefinition takes a different slot and queues the old one as shadowed, wf(map)")
OBS.update({
    "symbolmap_rollback_fresh_names": dict(kind="bounded", bound="7 histories", functions=["SymbolMap::roll_back", "SymbolMap::add"],
                                           contract="a failed compilation that only defined fresh names with an empty free list is undone exactly: every earlier binding as before, the new names unbound"),
    "symbolmap_rollback_redefinition": dict(kind="bounded", bound="1 history", functions=["SymbolMap::roll_back", "SymbolMap::add"],
                                            contract="same, when the failed compilation redefined an existing name"),
    "symbolmap_rollback_recycled_slot": dict(kind="known", bound="1 history", functions=["SymbolMap::roll_back", "SymbolMap::add"],
                                             contract="same, when the failed compilation consumed a recycled slot"),
    "freelist_generation_contract": dict(kind="proof", functions=["FreeList::increment_generation", "FreeList::should_collect", "FreeList::shadowed_count"],
                                         contract="epoch in 1..=4 and threshold == 100*2^(epoch-1) is invariant and cycles 100/200/400/800: the threshold that triggers reclamation of shadowed globals stays bounded; no overflow"),
    "visit_closure_one_instruction": dict(kind="proof", functions=["GlobalSlotRecycler::visit_closure", "u24::to_usize"],
                                          contract="for every opcode x every 24-bit payload x header None/Some(op): if the instruction the closure will execute uses its payload as a global index, that slot is removed from the candidate set; otherwise it stays; captured closures are queued"),
    "visit_closure_three_instructions": dict(kind="bounded", bound="3 instructions, first one possibly JIT-trampolined", functions=["GlobalSlotRecycler::visit_closure"],
                                             contract="same for every position of a 3-instruction body"),
    "recycle_resets_heap_marks": dict(kind="proof", functions=["GlobalSlotRecycler::recycle"], contract="both heap free lists are reset (mark_all_unreachable) before the walk and recounted after it"),
    "recycler_container_arms_contract": dict(kind="bounded", bound="containers of 2 children (closures and leaves)", functions=["GlobalSlotRecycler::visit_hash_map", "visit_hash_set", "visit_immutable_vector", "visit_list", "visit_steel_struct", "visit_stream", "visit_pair", "visit_boxed_value"],
                                             contract="a function that is reachable from a global only through a container is still found by the walk: every child (keys and values of maps, both halves of a pair - also an improper one -, fields, elements, boxed content, stream parts) is queued"),
    "push_back_contract": dict(kind="proof", functions=["GlobalSlotRecycler::push_back"], contract="closures are always queued; leaf values never"),
    **{n: dict(kind="bounded", tier="thorough", bound="one concrete global table of 3 slots", functions=["GlobalSlotRecycler::recycle", "GlobalSlotRecycler::visit_closure", "GlobalSlotRecycler::push_back"],
               contract="only shadowed slots are freed, each once, their root cleared; a slot that live code refers to is never freed")
       for n in ["recycle_direct_call", "recycle_direct_push", "recycle_direct_tail", "recycle_all_shadowed", "recycle_shadowed_refers_live"]},
    "recycle_transitive_references": dict(kind="known", tier="thorough", bound="1 global table", functions=["GlobalSlotRecycler::recycle"],
                                          contract="a slot referenced by a closure that is itself only reachable through a kept shadowed slot is never freed"),
})


def run_for(scratch, tier, prop):
    return run_unit(scratch, tier, only=({"freelist_generation_contract"} if prop == "C19" else None))


def run_unit(scratch, tier, only=None):
    crate, meta = build(scratch)
    p = os.path.join(crate, "src/harness_map.rs")
    write(p, read(p) + "\n#[kani::proof]\n#[kani::unwind(6)]\nfn canary_must_fail() {\n    let mut m = SymbolMap::new();\n    let r = m.add(&InternedString(0));\n    assert!(r != 0, \"canary: must be reported as failing\");\n}\n")
    specs = [dict(name=n, kind=o["kind"], contract=o["contract"], functions=o["functions"], bound=o.get("bound")) for n, o in OBS.items()
             if (tier == "thorough" or o.get("tier", "quick") == "quick") and (only is None or n in only)]
    specs.append(dict(name="canary_must_fail", kind="canary", contract="assert that must fail"))
    obs, cmd, out = kani.run_harnesses(crate, specs, NAME, "glob", jobs=10, timeout=3000, harness_timeout=("25m" if tier == "thorough" else "10m"),
                                       extra_flags=["--no-assertion-reach-checks"])
    kani.attach_counterexamples(obs, crate, "glob", out)
    return obs, meta, cmd
