// Contract harnesses for compiler/map.rs (child module of x_map; unit `glob`, C06)
#![allow(unused_imports, dead_code)]
use super::*;
use crate::prelude::*;

const NIDS: u32 = 3;

fn lookup(m: &SymbolMap, k: u32) -> Option<usize> {
    m.get(&InternedString(k)).ok()
}

fn snapshot(m: &SymbolMap) -> [Option<usize>; 3] {
    [lookup(m, 0), lookup(m, 1), lookup(m, 2)]
}

fn in_vec(v: &Vec<usize>, x: usize) -> bool {
    let mut i = 0;
    while i < v.len() {
        if v[i] == x {
            return true;
        }
        i += 1;
    }
    false
}

/// wf(map): every binding points at a slot holding its own name, no two names share a slot,
/// a slot on the free list is not the slot of any live binding
fn wf(m: &SymbolMap) -> bool {
    let s = snapshot(m);
    let mut k = 0;
    while k < 3 {
        if let Some(slot) = s[k] {
            if slot >= m.len() || m.values()[slot] != InternedString(k as u32) {
                return false;
            }
            if in_vec(&m.free_list.free_list, slot) {
                return false;
            }
            let mut j = k + 1;
            while j < 3 {
                if s[j] == Some(slot) {
                    return false;
                }
                j += 1;
            }
        }
        k += 1;
    }
    true
}

/// what the recycler does between evaluations, in its most aggressive form: every shadowed slot
/// is released for reuse
fn release_all_shadowed(m: &mut SymbolMap) {
    while let Some(s) = m.free_list.shadowed_slots.pop() {
        m.free_list.free_list.push(s);
    }
}

fn checked_add(m: &mut SymbolMap, id: u32) {
    let before = snapshot(m);
    let len0 = m.len();
    let r = m.add(&InternedString(id));
    let after = snapshot(m);
    assert!(after[id as usize] == Some(r), "the name is bound to the returned slot");
    assert!(r < m.len() && m.values()[r] == InternedString(id));
    assert!(r <= len0);
    let mut k = 0;
    while k < 3 {
        if k != id as usize {
            assert!(after[k] == before[k], "an unrelated binding changed");
            assert!(after[k] != Some(r), "the slot of a live binding was handed out");
        }
        k += 1;
    }
    if let Some(p) = before[id as usize] {
        assert!(p != r, "a redefinition must not overwrite the slot earlier code refers to");
        assert!(in_vec(&m.free_list.shadowed_slots, p), "the old slot is queued as a reclamation candidate");
    }
    assert!(wf(m));
}

/// reachable states of a SymbolMap, built with the real operations on concrete arguments
fn scenario(k: u8) -> SymbolMap {
    let mut m = SymbolMap::new();
    let i0 = InternedString(0);
    let i1 = InternedString(1);
    match k {
        0 => {}
        1 => {
            m.add(&i0);
        }
        2 => {
            m.add(&i0);
            m.add(&i1);
        }
        3 => {
            m.add(&i0);
            m.add(&i0);
        }
        4 => {
            m.add(&i0);
            m.add(&i0);
            release_all_shadowed(&mut m);
        }
        5 => {
            m.add(&i0);
            m.add(&i1);
            m.add(&i0);
            m.add(&i1);
            release_all_shadowed(&mut m);
        }
        _ => {
            m.add(&i0);
            m.add(&i1);
            m.add(&i0);
            release_all_shadowed(&mut m);
            m.add(&i1);
        }
    }
    m
}

macro_rules! add_harness {
    ($name:ident, $k:expr) => {
        #[kani::proof]
        #[kani::unwind(8)]
        fn $name() {
            let mut m = scenario($k);
            assert!(wf(&m));
            let id: u32 = kani::any();
            kani::assume(id < NIDS);
            checked_add(&mut m, id);
            let id2: u32 = kani::any();
            kani::assume(id2 < NIDS);
            checked_add(&mut m, id2);
        }
    };
}
add_harness!(symbolmap_add_s0, 0);
add_harness!(symbolmap_add_s1, 1);
add_harness!(symbolmap_add_s2, 2);
add_harness!(symbolmap_add_s3, 3);
add_harness!(symbolmap_add_s4, 4);
add_harness!(symbolmap_add_s5, 5);
add_harness!(symbolmap_add_s6, 6);

/// the engine remembers len() before compiling, the failing evaluation defines names a (and b),
/// then the engine rolls back
fn rollback_check(k: u8, a: u32, b: Option<u32>) {
    let mut m = scenario(k);
    let before = snapshot(&m);
    let n = m.len();
    m.add(&InternedString(a));
    if let Some(b) = b {
        m.add(&InternedString(b));
    }
    m.roll_back(n);
    let after = snapshot(&m);
    let mut j = 0;
    while j < 3 {
        assert!(after[j] == before[j], "a failed evaluation changed what a name is bound to");
        j += 1;
    }
    assert!(m.len() == n && wf(&m));
}

#[kani::proof]
#[kani::unwind(8)]
fn symbolmap_rollback_fresh_names() {
    // only fresh names, empty free list
    rollback_check(0, 0, None);
    rollback_check(0, 0, Some(1));
    rollback_check(1, 1, None);
    rollback_check(1, 1, Some(2));
    rollback_check(2, 2, None);
    rollback_check(3, 1, Some(2));
    // a recycled slot is in use by a live binding (recently_freed is not empty)
    rollback_check(6, 2, None);
}

#[kani::proof]
#[kani::unwind(8)]
fn symbolmap_rollback_redefinition() {
    // the failing evaluation redefines a name that was bound before
    rollback_check(1, 0, None);
}

#[kani::proof]
#[kani::unwind(8)]
fn symbolmap_rollback_recycled_slot() {
    // the failing evaluation takes a slot from the free list
    rollback_check(4, 1, None);
}

#[kani::proof]
fn freelist_generation_contract() {
    let mut f = FreeList::default();
    let e: usize = kani::any();
    kani::assume(e >= 1 && e <= 4);
    f.epoch = e;
    f.multiplier = 2;
    f.threshold = 100usize << (e - 1);
    let n: u8 = kani::any();
    let t0 = f.threshold;
    assert!(f.shadowed_count() == 0 && !f.should_collect());
    f.increment_generation();
    assert!(f.epoch >= 1 && f.epoch <= 4);
    assert!(f.threshold == 100usize << (f.epoch - 1));
    assert!(f.epoch == if e == 4 { 1 } else { e + 1 });
    let _ = (n, t0);
}
// ====SPLIT====
// Contract harnesses for GlobalSlotRecycler (child module of x_closed; unit `glob`, C06)
#![allow(unused_imports, dead_code)]
use super::*;
use crate::prelude::*;
use crate::x_instructions::{u24, DenseInstruction};
use core::mem::ManuallyDrop;

fn any_opcode() -> OpCode {
    let i: usize = kani::any();
    kani::assume(i < MAX_OPCODE_SIZE);
    OPCODES_ARRAY[i]
}

fn any_instr() -> DenseInstruction {
    let p: u32 = kani::any();
    kani::assume(p < (1 << 24));
    DenseInstruction::new(any_opcode(), u24::from_u32(p))
}

/// spec: does an instruction with this opcode use its payload as an index into the global table?
fn uses_global(op: OpCode) -> bool {
    matches!(op, /*GLOBAL_OPS*/)
}

/// opcodes this revision's compiler never emits (cross-checked by unit.py every run)
fn emitted(op: OpCode) -> bool {
    !matches!(op, OpCode::CALLPRIMITIVETAIL | OpCode::READLOCAL0CALLGLOBAL | OpCode::READLOCAL1CALLGLOBAL)
}

/// the opcode the closure will EXECUTE at position i: the native tier replaces the opcode of
/// instruction 0 by its trampoline and keeps the original in `header`
fn executed_op(c: &ByteCodeLambda, i: usize) -> OpCode {
    match (i, c.header) {
        (0, Some(op)) => op,
        _ => c.body_exp[i].op_code,
    }
}

fn closure_of(body: Vec<DenseInstruction>, header: Option<OpCode>, captures: Vec<SteelVal>) -> Gc<ByteCodeLambda> {
    Gc::new(ByteCodeLambda {
        captures: ManuallyDrop::new(captures),
        contract: None,
        body_exp: ManuallyDrop::new(body),
        header,
    })
}

fn any_header(first: &mut DenseInstruction) -> Option<OpCode> {
    let jitted: bool = kani::any();
    if jitted {
        let h = Some(first.op_code);
        first.op_code = OpCode::DynSuperInstruction;
        h
    } else {
        None
    }
}

#[kani::proof]
#[kani::unwind(3)]
fn visit_closure_one_instruction() {
    let mut ins = any_instr();
    kani::assume(emitted(ins.op_code));
    let header = any_header(&mut ins);
    let inner = closure_of(Vec::new(), None, Vec::new());
    let c = closure_of(vec![ins], header, vec![SteelVal::Closure(inner), SteelVal::IntV(1)]);
    let slot: usize = kani::any();
    let mut r = GlobalSlotRecycler::default();
    r.slots.insert(slot);
    let op = executed_op(&c, 0);
    let target = c.body_exp[0].payload_size.to_usize();
    r.visit_closure(c.clone());
    if uses_global(op) && target == slot {
        assert!(!r.slots.contains(&slot), "a global slot referenced by live code stays a reclamation candidate");
    } else {
        assert!(r.slots.contains(&slot));
    }
    // captured closures are walked, leaf captures are not
    assert!(r.queue.len() == 1 && matches!(r.queue[0], SteelVal::Closure(_)));
    kani::cover!(header.is_some() && uses_global(op) && target == slot);
    kani::cover!(op == OpCode::SET && target == slot);
}

#[kani::proof]
#[kani::unwind(5)]
fn visit_closure_three_instructions() {
    let mut i0 = any_instr();
    let i1 = any_instr();
    let i2 = any_instr();
    kani::assume(emitted(i0.op_code) && emitted(i1.op_code) && emitted(i2.op_code));
    let header = any_header(&mut i0);
    let c = closure_of(vec![i0, i1, i2], header, Vec::new());
    let slot: usize = kani::any();
    kani::assume(slot < (1 << 24));
    let mut r = GlobalSlotRecycler::default();
    r.slots.insert(slot);
    let mut referenced = false;
    let mut k = 0;
    while k < 3 {
        if uses_global(executed_op(&c, k)) && c.body_exp[k].payload_size.to_usize() == slot {
            referenced = true;
        }
        k += 1;
    }
    r.visit_closure(c.clone());
    assert!(r.slots.contains(&slot) == !referenced);
}

fn queued_closures(r: &GlobalSlotRecycler) -> usize {
    let mut n = 0;
    let mut i = 0;
    while i < r.queue.len() {
        if matches!(r.queue[i], SteelVal::Closure(_)) {
            n += 1;
        }
        i += 1;
    }
    n
}

#[kani::proof]
#[kani::unwind(5)]
fn recycler_container_arms_contract() {
    let h = || SteelVal::Closure(closure_of(Vec::new(), None, Vec::new()));
    let leaf = || SteelVal::IntV(1);
    let mut r = GlobalSlotRecycler::default();
    r.visit_hash_map(SteelHashMap(Gc::new(vec![(h(), leaf()), (leaf(), h())])));
    assert!(queued_closures(&r) == 2, "hash-map keys and values are both walked");
    r.queue.clear();
    r.visit_hash_set(SteelHashSet(Gc::new(vec![leaf(), h()])));
    assert!(queued_closures(&r) == 1);
    r.queue.clear();
    r.visit_immutable_vector(SteelVector(Gc::new(vec![h(), h()])));
    assert!(queued_closures(&r) == 2);
    r.queue.clear();
    r.visit_list(List(Gc::new(vec![leaf(), h()])));
    assert!(queued_closures(&r) == 1);
    r.queue.clear();
    r.visit_steel_struct(Gc::new(UserDefinedStruct { fields: vec![h(), leaf()] }));
    assert!(queued_closures(&r) == 1);
    r.queue.clear();
    r.visit_stream(Gc::new(LazyStream { initial_value: h(), stream_thunk: h() }));
    assert!(queued_closures(&r) == 2);
    r.queue.clear();
    // a dotted pair: the function sits in the cdr
    r.visit_pair(Gc::new(Pair { car: leaf(), cdr: h() }));
    assert!(queued_closures(&r) == 1, "the cdr of a pair is walked");
    r.queue.clear();
    r.visit_pair(Gc::new(Pair { car: h(), cdr: h() }));
    assert!(queued_closures(&r) == 2);
    r.queue.clear();
    r.visit_boxed_value(Gc::new(MutContainer(core::cell::RefCell::new(h()))));
    assert!(queued_closures(&r) == 1);
}

#[kani::proof]
fn push_back_contract() {
    let mut r = GlobalSlotRecycler::default();
    r.push_back(SteelVal::Closure(closure_of(Vec::new(), None, Vec::new())));
    assert!(r.queue.len() == 1);
    r.push_back(SteelVal::IntV(kani::any()));
    r.push_back(SteelVal::Void);
    r.push_back(SteelVal::BoolV(kani::any()));
    assert!(r.queue.len() == 1);
}

/// slot contents: None = a leaf value, Some(ops) = a closure with that body
type Slot = Option<&'static [(OpCode, u32)]>;

fn mk(slot: Slot) -> SteelVal {
    match slot {
        None => SteelVal::IntV(7),
        Some(ops) => {
            let mut body = Vec::new();
            let mut i = 0;
            while i < ops.len() {
                body.push(DenseInstruction::new(ops[i].0, u24::from_u32(ops[i].1)));
                i += 1;
            }
            SteelVal::Closure(closure_of(body, None, Vec::new()))
        }
    }
}

fn slot_refs(slot: Slot, target: usize) -> bool {
    if let Some(ops) = slot {
        let mut k = 0;
        while k < ops.len() {
            if uses_global(ops[k].0) && ops[k].1 as usize == target {
                return true;
            }
            k += 1;
        }
    }
    false
}

/// global table of 3 slots; `sh` = the slots a later definition has shadowed (candidates)
fn recycle_check(table: [Slot; 3], sh: [bool; 3]) {
    // which bindings are still alive (least fixpoint, computed on the specification side)
    let mut live = [!sh[0], !sh[1], !sh[2]];
    let mut round = 0;
    while round < 3 {
        let mut x = 0;
        while x < 3 {
            let mut y = 0;
            while y < 3 {
                if live[x] && slot_refs(table[x], y) {
                    live[y] = true;
                }
                y += 1;
            }
            x += 1;
        }
        round += 1;
    }
    let mut roots = vec![mk(table[0]), mk(table[1]), mk(table[2])];
    let mut sm = SymbolMap::new();
    let mut i = 0;
    while i < 3 {
        if sh[i] {
            sm.free_list.shadowed_slots.push(i);
        }
        i += 1;
    }
    let mut heap = Heap::default();
    let mut r = GlobalSlotRecycler::default();
    r.recycle(&mut roots, &mut sm, &mut heap);
    let freed = &sm.free_list.free_list;
    assert!(freed.len() <= 3);
    let mut s = 0;
    while s < 3 {
        let mut n = 0;
        let mut j = 0;
        while j < freed.len() {
            if freed[j] == s {
                n += 1;
            }
            j += 1;
        }
        if n > 0 {
            assert!(sh[s], "a slot that was never shadowed was released");
            assert!(n == 1, "released twice");
            assert!(matches!(roots[s], SteelVal::Void));
            assert!(!live[s], "a global slot that live code still refers to was released for reuse");
        }
        s += 1;
    }
    assert!(sm.free_list.shadowed_slots.is_empty());
}

macro_rules! recycle_harness {
    ($name:ident, $table:expr, $sh:expr) => {
        #[kani::proof]
        #[kani::unwind(5)]
        fn $name() {
            recycle_check($table, $sh);
        }
    };
}
// slot 0 (live) calls slot 1 (shadowed): 1 must stay, the unreferenced shadowed slot 2 is released
recycle_harness!(recycle_direct_call, [Some(&[(OpCode::CALLGLOBAL, 1), (OpCode::FUNC, 0)]), None, None], [false, true, true]);
// value reference / tail call
recycle_harness!(recycle_direct_push, [None, Some(&[(OpCode::PUSH, 0), (OpCode::POPPURE, 0)]), None], [true, false, true]);
recycle_harness!(recycle_direct_tail, [None, None, Some(&[(OpCode::READLOCAL0, 0), (OpCode::CALLGLOBALTAIL, 1)])], [true, true, false]);
// everything shadowed: everything is released
recycle_harness!(recycle_all_shadowed, [None, None, None], [true, true, true]);
// a shadowed closure that refers to a live slot
recycle_harness!(recycle_shadowed_refers_live, [Some(&[(OpCode::PUSH, 1)]), None, Some(&[(OpCode::CALLGLOBALTAILNOARITY, 0)])], [true, false, false]);
// (known finding) k (slot 0, live) calls old g (slot 1, shadowed), old g calls old f (slot 2, shadowed)
recycle_harness!(recycle_transitive_references, [Some(&[(OpCode::CALLGLOBAL, 1)]), Some(&[(OpCode::CALLGLOBAL, 2)]), None], [false, true, true]);

/// the walk over live values starts from a clean mark state on BOTH heaps (otherwise values
/// allocated since the last collection count as already visited and what they reference is
/// skipped) and the free counts are recomputed afterwards
#[kani::proof]
#[kani::unwind(3)]
fn recycle_resets_heap_marks() {
    let mut roots: Vec<SteelVal> = Vec::new();
    let mut sm = SymbolMap::new();
    let mut heap = Heap::default();
    let mut r = GlobalSlotRecycler::default();
    r.recycle(&mut roots, &mut sm, &mut heap);
    assert!(heap.memory_free_list.reset_marks == 1 && heap.vector_free_list.reset_marks == 1);
    assert!(heap.memory_free_list.recounted_after_reset == 1 && heap.vector_free_list.recounted_after_reset == 1);
}
