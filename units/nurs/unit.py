"""Unit `nurs` (C20, engine E2): stack discipline of the lent-reference nursery (gc.rs)."""
import os
import shutil

from vlib.common import REPO, VERIF, AnchorLost, read, write, sha256, scan_assumptions
from vlib.extract import Extractor
from vlib import kani

NAME = "nurs"
GC = "crates/steel-core/src/gc.rs"


def build(scratch):
    ex = Extractor()
    st = ex.item(GC, "struct", "OpaqueReferenceNursery")
    for f in ["memory: Shared<MutContainer<Vec<", "weak_values: Shared<MutContainer<Vec<OpaqueReference<'static>>>>"]:
        if f not in st:
            raise AnchorLost(f"OpaqueReferenceNursery field changed: {f}")
    ex.items.pop()
    s, ob, end = ex.impl_range(GC, r"impl OpaqueReferenceNursery")
    fns = [ex.fn(GC, n, within=(ob, end)) for n in ["new", "allocate", "free_all", "free_n", "drain_weak_references_to_steelvals"]]
    text = ("impl OpaqueReferenceNursery {\n    const DEFAULT_CAPACITY: usize = 8;\n\n    " + "\n\n    ".join(fns) + "\n}\n"
            "pub fn new_nursery() -> OpaqueReferenceNursery {\n    OpaqueReferenceNursery::new()\n}\n")
    crate = os.path.join(scratch, "nursx")
    os.makedirs(os.path.join(crate, "src"))
    shutil.copy(os.path.join(REPO, "Cargo.lock"), os.path.join(crate, "Cargo.lock"))
    write(os.path.join(crate, "Cargo.toml"), "[package]\nname = \"nursx\"\nversion = \"0.0.0\"\nedition = \"2021\"\n\n[dependencies]\n\n[workspace]\n\n[lints.rust]\nunexpected_cfgs = { level = \"allow\", check-cfg = ['cfg(kani)'] }\n")
    prelude = read(os.path.join(VERIF, "units/nurs/prelude.rs"))
    harness = read(os.path.join(VERIF, "units/nurs/harness.rs"))
    write(os.path.join(crate, "src/prelude.rs"), prelude)
    write(os.path.join(crate, "src/x_gc.rs"), "#![allow(dead_code, unused_imports, unused_variables, unused_mut)]\nuse crate::prelude::*;\n\n" + text + "\n#[cfg(kani)]\n#[path = \"harness.rs\"]\nmod harness;\n")
    write(os.path.join(crate, "src/harness.rs"), harness)
    write(os.path.join(crate, "src/lib.rs"), "#![allow(dead_code, unused_imports)]\npub mod prelude;\npub mod x_gc;\n")
    meta = {"unit": NAME, "engine": "E2: verbatim item extraction into a mini crate + Kani", "items": ex.items,
            "prelude": "units/nurs/prelude.rs", "prelude_sha256": sha256(prelude), "harness_sha256": sha256(harness),
            "extractor_edits": "D1; D3; the thread_local NURSERY is a prelude cell with the same `.with` API; `DEFAULT_CAPACITY` restated",
            "assumption_scan": scan_assumptions(harness, "units/nurs/harness.rs") + scan_assumptions(prelude, "units/nurs/prelude.rs")}
    return crate, meta


OBS = {
    "free_n_is_lifo_contract": dict(kind="bounded", bound="nursery stacks of 3 entries, n <= 3", functions=["OpaqueReferenceNursery::free_n", "OpaqueReferenceNursery::allocate", "OpaqueReferenceNursery::new"],
                                    contract="free_n(n) ends exactly the n NEWEST lends: the references of an enclosing (older) call stay registered and in order, the inner call's are gone - in both the owner stack and the reference stack; n beyond the depth empties them without panicking"),
    "free_all_and_drain_contract": dict(kind="bounded", bound="nursery stacks of 3 entries", functions=["OpaqueReferenceNursery::free_all", "OpaqueReferenceNursery::drain_weak_references_to_steelvals"],
                                        contract="drain(n) hands out exactly the n newest references in order and leaves the older ones; free_all leaves nothing lent"),
}


def run_unit(scratch, tier):
    crate, meta = build(scratch)
    p = os.path.join(crate, "src/harness.rs")
    write(p, read(p) + "\n#[kani::proof]\n#[kani::unwind(6)]\nfn canary_must_fail() {\n    reset();\n    push(1);\n    OpaqueReferenceNursery::free_n(1);\n    assert!(depth() == 1, \"canary: must be reported as failing\");\n}\n")
    specs = [dict(name=n, kind=o["kind"], contract=o["contract"], functions=o["functions"], bound=o.get("bound")) for n, o in OBS.items()]
    specs.append(dict(name="canary_must_fail", kind="canary", contract="assert that must fail"))
    obs, cmd, out = kani.run_harnesses(crate, specs, NAME, "nurs", jobs=4, timeout=2000, harness_timeout="10m", extra_flags=["--no-assertion-reach-checks"])
    kani.attach_counterexamples(obs, crate, "nurs", out)
    return obs, meta, cmd
