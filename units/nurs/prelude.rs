// Environment prelude of unit `nurs` (C20, engine E2): the per-thread nursery that keeps host
// references lent to a script alive for the duration of a call. HAND-WRITTEN AND TRUSTED.
// Restated: the thread-local `NURSERY` as a process-wide cell with the same `.with(|x| ..)` API
// (one thread), Shared = Rc, MutContainer = RefCell with read()/write(), the two element types as
// numbered tokens (what is lent is irrelevant to the stack discipline), SteelVal/Gc reduced.
#![allow(dead_code, unused_imports, unused_variables)]
use core::cell::{Ref, RefCell, RefMut};
pub use std::rc::Rc as Shared;

#[derive(Debug)]
pub struct MutContainer<T>(RefCell<T>);
impl<T> MutContainer<T> {
    pub fn new(v: T) -> Self {
        MutContainer(RefCell::new(v))
    }
    pub fn read(&self) -> Ref<'_, T> {
        self.0.borrow()
    }
    pub fn write(&self) -> RefMut<'_, T> {
        self.0.borrow_mut()
    }
}

/// a lent reference (the real one wraps a type-erased Rc/Arc of the borrowed host object)
#[derive(Clone, Debug, PartialEq)]
pub struct OpaqueReference<'a> {
    pub tag: u32,
    pub _p: core::marker::PhantomData<&'a ()>,
}
/// the boxed owner that keeps the borrowed object's wrapper alive
pub type OwnerBox = Box<u32>;

pub struct OpaqueReferenceNursery {
    pub memory: Shared<MutContainer<Vec<OwnerBox>>>,
    pub weak_values: Shared<MutContainer<Vec<OpaqueReference<'static>>>>,
}

pub struct Gc<T>(pub Box<T>);
impl<T> Gc<T> {
    pub fn new(v: T) -> Self {
        Gc(Box::new(v))
    }
}
pub enum SteelVal {
    Reference(Gc<OpaqueReference<'static>>),
}

/// `thread_local! { static NURSERY: OpaqueReferenceNursery }` for the one thread of the model
pub struct LocalKeyModel {
    cell: RefCell<Option<OpaqueReferenceNursery>>,
}
unsafe impl Sync for LocalKeyModel {}
impl LocalKeyModel {
    pub const fn new() -> Self {
        LocalKeyModel { cell: RefCell::new(None) }
    }
    pub fn with<R>(&self, f: impl FnOnce(&OpaqueReferenceNursery) -> R) -> R {
        if self.cell.borrow().is_none() {
            let fresh = crate::x_gc::new_nursery();
            *self.cell.borrow_mut() = Some(fresh);
        }
        let g = self.cell.borrow();
        f(g.as_ref().unwrap())
    }
}
pub static NURSERY: LocalKeyModel = LocalKeyModel::new();
