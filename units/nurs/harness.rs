// Contract harnesses for the lent-reference nursery (child of x_gc; unit `nurs`, C20)
#![allow(unused_imports, dead_code)]
use super::*;
use crate::prelude::*;

fn reset() {
    OpaqueReferenceNursery::free_all();
}

/// one lend: an owner box and the reference handed to the script
fn push(tag: u32) {
    NURSERY.with(|x| x.memory.write().push(Box::new(tag)));
    OpaqueReferenceNursery::allocate(OpaqueReference { tag, _p: core::marker::PhantomData });
}

fn depth() -> usize {
    NURSERY.with(|x| x.weak_values.read().len())
}

fn tags() -> ([u32; 3], [u32; 3], usize, usize) {
    NURSERY.with(|x| {
        let w = x.weak_values.read();
        let m = x.memory.read();
        let mut a = [0u32; 3];
        let mut b = [0u32; 3];
        let mut i = 0;
        while i < 3 {
            if i < w.len() {
                a[i] = w[i].tag;
            }
            if i < m.len() {
                b[i] = *m[i];
            }
            i += 1;
        }
        (a, b, w.len(), m.len())
    })
}

#[kani::proof]
#[kani::unwind(6)]
fn free_n_is_lifo_contract() {
    reset();
    // an outer call lent 11 (and 12), a nested call lent 13
    push(11);
    push(12);
    push(13);
    let n: usize = kani::any();
    kani::assume(n <= 4);
    OpaqueReferenceNursery::free_n(n);
    let (w, m, wl, ml) = tags();
    let keep = if n >= 3 { 0 } else { 3 - n };
    assert!(wl == keep && ml == keep, "free_n must end exactly the n newest lends");
    let want = [11u32, 12, 13];
    let mut i = 0;
    while i < keep {
        assert!(w[i] == want[i] && m[i] == want[i], "a reference lent by an enclosing call was released (or a finished call's reference kept)");
        i += 1;
    }
}

#[kani::proof]
#[kani::unwind(6)]
fn free_all_and_drain_contract() {
    reset();
    push(21);
    push(22);
    push(23);
    let got = OpaqueReferenceNursery::drain_weak_references_to_steelvals(2);
    assert!(got.len() == 2);
    match (&got[0], &got[1]) {
        (SteelVal::Reference(a), SteelVal::Reference(b)) => assert!(a.0.tag == 22 && b.0.tag == 23),
    }
    assert!(depth() == 1);
    let (w, _, _, _) = tags();
    assert!(w[0] == 21);
    OpaqueReferenceNursery::free_all();
    let (_, _, wl, ml) = tags();
    assert!(wl == 0 && ml == 0, "after the call nothing stays lent");
}
