// Environment prelude of unit `heap` (C04 / C19, engine E2). HAND-WRITTEN AND TRUSTED.
// Restated here (NOT verified):
//   * StandardShared = std::sync::Arc, WeakShared = std::sync::Weak (what crate::gc defines for
//     the `sync` feature), MutContainer = RefCell behind read()/write() (the real one is a
//     parking_lot RwLock: same API, no blocking in a single thread)
//   * SteelVal reduced to leaves + the two heap-handle variants
//   * crossbeam Sender/Receiver as opaque stubs (the background-dropper branch is not exercised)
//   * log::debug! as a no-op
#![allow(dead_code, unused_imports, unused_macros, unused_variables)]

pub use std::sync::Arc as StandardShared;
pub use std::sync::Weak as WeakShared;
use core::cell::{Ref, RefCell, RefMut};

#[derive(Debug)]
pub struct MutContainer<T>(RefCell<T>);
impl<T> MutContainer<T> {
    pub fn new(v: T) -> Self {
        MutContainer(RefCell::new(v))
    }
    pub fn read(&self) -> Ref<'_, T> {
        self.0.borrow()
    }
    pub fn write(&self) -> RefMut<'_, T> {
        self.0.borrow_mut()
    }
}
pub type StandardSharedMut<T> = StandardShared<MutContainer<T>>;

pub struct Sender<T>(core::marker::PhantomData<T>);
pub struct Receiver<T>(core::marker::PhantomData<T>);
impl<T> core::fmt::Debug for Sender<T> {
    fn fmt(&self, f: &mut core::fmt::Formatter<'_>) -> core::fmt::Result {
        f.write_str("Sender")
    }
}
impl<T> core::fmt::Debug for Receiver<T> {
    fn fmt(&self, f: &mut core::fmt::Formatter<'_>) -> core::fmt::Result {
        f.write_str("Receiver")
    }
}
impl<T> Sender<T> {
    pub fn send(&self, _v: T) -> core::result::Result<(), ()> {
        unimplemented!("background dropper is outside unit heap")
    }
}
impl<T> Receiver<T> {
    pub fn recv(&self) -> core::result::Result<T, ()> {
        unimplemented!("background dropper is outside unit heap")
    }
}

pub mod log {
    macro_rules! debug {
        ($($t:tt)*) => {};
    }
    pub(crate) use debug;
}

#[derive(Clone, Debug)]
pub enum SteelVal {
    BoolV(bool),
    NumV(f64),
    IntV(isize),
    CharV(char),
    Void,
    StringV(()),
    FuncV(()),
    SymbolV(()),
    FutureFunc(()),
    FutureV(()),
    BoxedFunction(()),
    MutFunc(()),
    BuiltIn(()),
    ByteVector(()),
    BigNum(()),
    HeapAllocated(crate::x_closed::HeapRef<SteelVal>),
    MutableVector(crate::x_closed::HeapRef<Vec<SteelVal>>),
    HashMapV(SteelHashMap),
    HashSetV(SteelHashSet),
    VectorV(SteelVector),
    ListV(List<SteelVal>),
    CustomStruct(Gc<UserDefinedStruct>),
    StreamV(Gc<LazyStream>),
    Pair(Gc<Pair>),
    Boxed(GcMut<SteelVal>),
    Closure(Gc<ByteCodeLambda>),
}

// ---- container models: sequences of children behind never-freed shared pointers (so that the
// recursive drop glue of SteelVal stays out of the verification problem). Only `iter()` /
// field access is modelled - what the marker uses.
pub struct Gc<T> {
    ptr: *const T,
}
impl<T> Gc<T> {
    pub fn new(v: T) -> Self {
        Gc { ptr: Box::leak(Box::new(v)) as *const T }
    }
}
impl<T> Clone for Gc<T> {
    fn clone(&self) -> Self {
        Gc { ptr: self.ptr }
    }
}
impl<T> core::fmt::Debug for Gc<T> {
    fn fmt(&self, f: &mut core::fmt::Formatter<'_>) -> core::fmt::Result {
        f.write_str("Gc")
    }
}
impl<T> core::ops::Deref for Gc<T> {
    type Target = T;
    fn deref(&self) -> &T {
        unsafe { &*self.ptr }
    }
}
pub type GcMut<T> = Gc<MutContainer<T>>;

#[derive(Clone, Debug)]
pub struct SteelHashMap(pub Gc<Vec<(SteelVal, SteelVal)>>);
impl SteelHashMap {
    pub fn iter(&self) -> impl Iterator<Item = (&SteelVal, &SteelVal)> {
        self.0.iter().map(|(k, v)| (k, v))
    }
    pub fn keys(&self) -> impl Iterator<Item = &SteelVal> {
        self.0.iter().map(|(k, _)| k)
    }
    pub fn values(&self) -> impl Iterator<Item = &SteelVal> {
        self.0.iter().map(|(_, v)| v)
    }
    pub fn len(&self) -> usize {
        self.0.len()
    }
}
#[derive(Clone, Debug)]
pub struct SteelHashSet(pub Gc<Vec<SteelVal>>);
impl SteelHashSet {
    pub fn iter(&self) -> core::slice::Iter<'_, SteelVal> {
        self.0.iter()
    }
}
#[derive(Clone, Debug)]
pub struct SteelVector(pub Gc<Vec<SteelVal>>);
impl SteelVector {
    pub fn iter(&self) -> core::slice::Iter<'_, SteelVal> {
        self.0.iter()
    }
}
#[derive(Clone, Debug)]
pub struct List<T>(pub Gc<Vec<T>>);
impl<T: Clone> IntoIterator for List<T> {
    type Item = T;
    type IntoIter = std::vec::IntoIter<T>;
    fn into_iter(self) -> Self::IntoIter {
        (*self.0).clone().into_iter()
    }
}
pub struct UserDefinedStruct {
    pub fields: Vec<SteelVal>,
}
pub struct LazyStream {
    pub initial_value: SteelVal,
    pub stream_thunk: SteelVal,
}
pub struct Pair {
    pub car: SteelVal,
    pub cdr: SteelVal,
}
impl Pair {
    pub fn car(&self) -> SteelVal {
        self.car.clone()
    }
    pub fn cdr(&self) -> SteelVal {
        self.cdr.clone()
    }
}
pub struct ByteCodeLambda {
    pub captures: Vec<SteelVal>,
    pub contract: Option<SteelVal>,
}
impl ByteCodeLambda {
    pub fn captures(&self) -> &[SteelVal] {
        &self.captures
    }
    pub fn get_contract_information(&self) -> Option<SteelVal> {
        self.contract.clone()
    }
}
pub mod lists {
    pub use super::Pair;
}

// exact finite-map model for the host root table (assumed contract of hashbrown)
pub struct FxHashMap<K, V> {
    pub entries: Vec<(K, V)>,
}
impl<K, V> Default for FxHashMap<K, V> {
    fn default() -> Self {
        FxHashMap { entries: Vec::new() }
    }
}
impl<K: PartialEq + Copy, V> FxHashMap<K, V> {
    pub fn insert(&mut self, k: K, v: V) -> Option<V> {
        let mut i = 0;
        while i < self.entries.len() {
            if self.entries[i].0 == k {
                return Some(core::mem::replace(&mut self.entries[i].1, v));
            }
            i += 1;
        }
        self.entries.push((k, v));
        None
    }
    pub fn remove(&mut self, k: &K) -> Option<V> {
        let mut i = 0;
        while i < self.entries.len() {
            if self.entries[i].0 == *k {
                return Some(self.entries.swap_remove(i).1);
            }
            i += 1;
        }
        None
    }
    pub fn contains_key(&self, k: &K) -> bool {
        let mut i = 0;
        while i < self.entries.len() {
            if self.entries[i].0 == *k {
                return true;
            }
            i += 1;
        }
        false
    }
    pub fn len(&self) -> usize {
        self.entries.len()
    }
}
pub mod rustc_hash {
    pub use super::FxHashMap;
}
impl PartialEq for SteelVal {
    fn eq(&self, o: &Self) -> bool {
        match (self, o) {
            (SteelVal::IntV(a), SteelVal::IntV(b)) => a == b,
            (SteelVal::Void, SteelVal::Void) => true,
            (SteelVal::BoolV(a), SteelVal::BoolV(b)) => a == b,
            (SteelVal::HeapAllocated(a), SteelVal::HeapAllocated(b)) => a.ptr_eq(b),
            (SteelVal::MutableVector(a), SteelVal::MutableVector(b)) => a.ptr_eq(b),
            _ => false,
        }
    }
}
impl Eq for SteelVal {}

#[derive(Debug, Clone, Default)]
pub struct MarkAndSweepStats {
    pub object_count: usize,
    pub memory_reached_count: usize,
    pub vector_reached_count: usize,
}
