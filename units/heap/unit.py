"""Unit `heap` (C04 / C19, engine E2): the mutable-storage free list and mark bits of values/closed.rs."""
import os
import shutil

from vlib.common import REPO, VERIF, AnchorLost, read, write, sha256, scan_assumptions
from vlib.extract import Extractor
from vlib import kani

NAME = "heap"
CLOSED = "crates/steel-core/src/values/closed.rs"


def build(scratch):
    ex = Extractor()
    src = ex.src(CLOSED)
    if 'const EXTEND_CHUNK: usize = 256 * 100;' not in src:
        raise AnchorLost("EXTEND_CHUNK changed")
    parts = [
        "type HeapElement<T> = StandardSharedMut<HeapAllocated<T>>;",
        "#[derive(Debug)]\n" + ex.item(CLOSED, "struct", "FreeList"),
        ex.impl_block(CLOSED, r"impl<T: HeapAble \+ Sync \+ Send \+ 'static> FreeList<T>"),
        ex.item(CLOSED, "trait", "HeapAble"),
        ex.impl_block(CLOSED, r"impl HeapAble for SteelVal"),
        ex.impl_block(CLOSED, r"impl HeapAble for Vec<SteelVal>"),
        "#[derive(Clone, Debug)]\n" + ex.item(CLOSED, "struct", "HeapRef"),
        ex.impl_block(CLOSED, r"impl<T: HeapAble> HeapRef<T>"),
        "#[derive(Clone, Debug, PartialEq, Eq)]\n" + ex.item(CLOSED, "struct", "HeapAllocated"),
        ex.impl_block(CLOSED, r"impl<T: Clone \+ core::fmt::Debug \+ PartialEq \+ Eq> HeapAllocated<T>"),
        "pub struct MarkAndSweepContext<'a> {\n    queue: &'a mut Vec<SteelVal>,\n    stats: MarkAndSweepStats,\n}",
        ex.impl_block(CLOSED, r"impl<'a> MarkAndSweepContext<'a>"),
    ]
    # the struct text must still be what the prelude-side restatement above says
    real_ctx = ex.item(CLOSED, "struct", "MarkAndSweepContext")
    if "queue: &'a mut Vec<SteelVal>" not in real_ctx or "stats: MarkAndSweepStats" not in real_ctx:
        raise AnchorLost("MarkAndSweepContext fields changed")
    vs, vob, vend = ex.impl_range(CLOSED, r"impl<'a> BreadthFirstSearchSteelValVisitor for MarkAndSweepContext<'a>")
    arms = ["push_back", "visit_hash_map", "visit_hash_set", "visit_immutable_vector", "visit_list", "visit_steel_struct", "visit_stream",
            "visit_pair", "visit_boxed_value", "visit_closure", "visit_heap_allocated", "visit_mutable_vector"]
    parts.append("impl<'a> MarkAndSweepVisitor for MarkAndSweepContext<'a> {\n    type Output = ();\n\n    "
                 + "\n\n    ".join(ex.fn(CLOSED, a, within=(vob, vend)) for a in arms) + "\n}")
    parts.append("pub trait MarkAndSweepVisitor {\n    type Output;\n" + "".join(
        "    fn %s;\n" % sig for sig in [
            "push_back(&mut self, value: SteelVal)", "visit_hash_map(&mut self, hashmap: SteelHashMap) -> Self::Output",
            "visit_hash_set(&mut self, hashset: SteelHashSet) -> Self::Output", "visit_immutable_vector(&mut self, vector: SteelVector) -> Self::Output",
            "visit_list(&mut self, list: List<SteelVal>) -> Self::Output", "visit_steel_struct(&mut self, steel_struct: Gc<UserDefinedStruct>) -> Self::Output",
            "visit_stream(&mut self, stream: Gc<LazyStream>) -> Self::Output", "visit_pair(&mut self, pair: Gc<super::lists::Pair>) -> Self::Output",
            "visit_boxed_value(&mut self, boxed_value: GcMut<SteelVal>) -> Self::Output", "visit_closure(&mut self, closure: Gc<ByteCodeLambda>) -> Self::Output",
            "visit_heap_allocated(&mut self, heap_ref: HeapRef<SteelVal>) -> Self::Output", "visit_mutable_vector(&mut self, vector: HeapRef<Vec<SteelVal>>) -> Self::Output"]) + "}")
    # host root table
    parts.append("#[derive(Default)]\n" + ex.item(CLOSED, "struct", "Roots"))
    parts.append("#[derive(Debug, PartialEq, Eq)]\n" + ex.item(CLOSED, "struct", "RootToken"))
    parts.append(ex.impl_block(CLOSED, r"impl Roots"))
    text = "\n\n".join(parts)
    # D2: the items are the `sync` configuration; cfg attributes inside them are resolved by passing --cfg feature
    crate = os.path.join(scratch, "heapx")
    os.makedirs(os.path.join(crate, "src"))
    shutil.copy(os.path.join(REPO, "Cargo.lock"), os.path.join(crate, "Cargo.lock"))
    write(os.path.join(crate, "Cargo.toml"), """[package]
name = "heapx"
version = "0.0.0"
edition = "2021"

[features]
default = ["sync"]
sync = []

[dependencies]

[workspace]

[lints.rust]
unexpected_cfgs = { level = "allow", check-cfg = ['cfg(kani)'] }
""")
    prelude = read(os.path.join(VERIF, "units/heap/prelude.rs"))
    harness = read(os.path.join(VERIF, "units/heap/harness.rs"))
    write(os.path.join(crate, "src/prelude.rs"), prelude)
    write(os.path.join(crate, "src/x_closed.rs"),
          "#![allow(dead_code, unused_imports, unused_variables, unreachable_patterns, unused_mut)]\n"
          "use crate::prelude::*;\nuse crate::prelude::{log, rustc_hash};\n\n" + text + "\n\n#[cfg(kani)]\n#[path = \"harness.rs\"]\nmod harness;\n")
    write(os.path.join(crate, "src/harness.rs"), harness)
    write(os.path.join(crate, "src/lib.rs"), "#![allow(dead_code, unused_imports, unused_macros)]\npub mod prelude;\npub mod lists { pub use crate::prelude::Pair; }\npub mod x_closed;\n")
    meta = {"unit": NAME, "engine": "E2: verbatim item extraction into a mini crate + Kani", "items": ex.items,
            "prelude": "units/heap/prelude.rs", "prelude_sha256": sha256(prelude), "harness_sha256": sha256(harness),
            "extractor_edits": "D1; D2 (crate feature `sync` on, so #[cfg(feature = \"sync\")] inside the items selects the baseline branch); D3 (push_back re-wrapped into an inherent impl); MarkAndSweepContext struct restated (field list checked against the real text)",
            "assumption_scan": scan_assumptions(harness, "units/heap/harness.rs") + scan_assumptions(prelude, "units/heap/prelude.rs")}
    return crate, meta


B = "free list of at most 3 slots"
OBS = {
    "allocate_contract": dict(props=["C04", "C19"], kind="bounded", bound=B, functions=["FreeList::allocate", "HeapAllocated::is_reachable", "FreeList::is_heap_full"],
                              contract="requires wf && >= 2 free slots; the handle designates the slot at old(cursor), which was free; it now holds v and is marked; EVERY other slot keeps its mark and its value (a reachable slot is never overwritten); alloc_count' == alloc_count-1; wf'"),
    "weak_collection_contract": dict(props=["C04", "C19"], kind="bounded", bound=B, functions=["FreeList::weak_collection", "FreeList::collect_on_condition"],
                                     contract="a slot with a live handle is never freed and no value changes (C04); every marked slot without a handle is freed (C19); returns their number; alloc_count' == alloc_count + r"),
    "recount_contract": dict(props=["C04", "C19"], kind="bounded", bound=B, functions=["FreeList::recount", "FreeList::mark_all_unreachable", "HeapAllocated::reset"],
                             contract="recount: alloc_count == number of unmarked slots, marks and values untouched; mark_all_unreachable clears every mark and no value"),
    "grow_by_contract": dict(props=["C04", "C19"], kind="bounded", bound="1 existing slot, amount 1 or 2", functions=["FreeList::grow_by", "HeapAllocated::new"],
                             contract="appends max(len, amount) free empty slots, existing slots untouched, cursor' == old(len), alloc_count' == alloc_count + added"),
    "mark_heap_reference_contract": dict(props=["C04", "C19"], kind="bounded", bound="4 shapes: leaf / handle content x marked / unmarked", functions=["MarkAndSweepContext::mark_heap_reference", "MarkAndSweepContext::push_back", "HeapAllocated::mark_reachable"],
                                         contract="first visit marks the cell and queues its content exactly once (leaves are not queued); a second visit does nothing (termination on cycles); a mark is never cleared; the value is untouched"),
    "mark_heap_vector_contract": dict(props=["C04", "C19"], kind="bounded", bound="vector of 2 elements", functions=["MarkAndSweepContext::mark_heap_vector"],
                                      contract="first visit marks the vector and queues every non-leaf element; second visit does nothing"),
    "visitor_container_arms_contract": dict(props=["C04"], kind="bounded", bound="containers of 2 children (one leaf, one heap handle)", functions=["MarkAndSweepContext::visit_hash_map", "visit_hash_set", "visit_immutable_vector", "visit_list", "visit_steel_struct", "visit_stream", "visit_pair", "visit_boxed_value", "visit_closure"],
                                            contract="every child that can hold a heap handle - keys AND values of a hash map, set members, vector/list elements, struct fields, stream parts, both halves of a pair, box content, captures and contract of a closure - is queued for marking"),
    "visitor_handle_arms_contract": dict(props=["C04"], kind="bounded", bound="1 cell / vector of 1", functions=["MarkAndSweepContext::visit_heap_allocated", "MarkAndSweepContext::visit_mutable_vector"],
                                         contract="visiting a handle marks the designated cell / vector"),
    "host_roots_contract": dict(props=["C04", "C19"], kind="bounded", bound="histories of <= 4 root/free operations", functions=["Roots::root", "Roots::free", "Roots::increment_generation"],
                                contract="every live RootToken keeps its own entry: root() never reuses the key of a live token, free() removes exactly its entry"),
    "heapref_get_set_contract": dict(props=["C04"], kind="proof", functions=["HeapRef::get", "HeapRef::set", "HeapRef::set_and_return", "HeapRef::set_interior_mut", "HeapRef::ptr_eq"],
                                     contract="set replaces exactly the designated cell's value and returns the old one; get returns the last value stored; marks untouched"),
    "heapref_set_variants_contract": dict(props=["C04"], kind="proof", functions=["HeapRef::set_and_return", "HeapRef::set_interior_mut"], contract="replace the value, return the old one, mark untouched"),
    "maybe_get_from_weak_contract": dict(props=["C19"], kind="proof", functions=["HeapRef::maybe_get_from_weak"],
                                         contract="a marked cell or a cell with another handle yields its value unchanged; an unmarked cell whose only handle this is reports None and is emptied"),
}


def run_for(scratch, tier, prop):
    crate, meta = build(scratch)
    p = os.path.join(crate, "src/harness.rs")
    write(p, read(p) + "\n#[kani::proof]\nfn canary_must_fail() {\n    let h = HeapAllocated::new(1u32);\n    assert!(h.is_reachable(), \"canary: must be reported as failing\");\n}\n")
    specs = [dict(name=n, kind=o["kind"], contract=o["contract"], functions=o["functions"], bound=o.get("bound"))
             for n, o in OBS.items() if prop in o["props"]]
    specs.append(dict(name="canary_must_fail", kind="canary", contract="assert that must fail"))
    obs, cmd, out = kani.run_harnesses(crate, specs, NAME, "heap", jobs=8, timeout=3000, harness_timeout="10m",
                                       extra_flags=["--no-assertion-reach-checks"])
    kani.attach_counterexamples(obs, crate, "heap", out)
    return obs, meta, cmd
