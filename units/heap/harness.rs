// Contract harnesses for the mutable-storage free list (child module of x_closed; unit `heap`)
#![allow(unused_imports, dead_code)]
use super::*;
use crate::prelude::*;

impl HeapAble for u32 {
    fn empty() -> Self {
        0
    }
}

const N: usize = 3;

fn elem(reachable: bool, value: u32) -> HeapElement<u32> {
    let mut h = HeapAllocated::new(value);
    h.reachable = reachable;
    StandardShared::new(MutContainer::new(h))
}

/// a free list of n <= 3 slots with arbitrary marks and values
fn any_list(n: usize) -> FreeList<u32> {
    let mut elements = Vec::new();
    let mut i = 0;
    while i < n {
        elements.push(elem(kani::any(), kani::any()));
        i += 1;
    }
    FreeList {
        elements,
        cursor: kani::any(),
        alloc_count: kani::any(),
        grow_count: 0,
        forward: None,
        backward: None,
        should_run_weak: true,
    }
}

fn free_count(l: &FreeList<u32>) -> usize {
    let mut c = 0;
    let mut i = 0;
    while i < l.elements.len() {
        if !l.elements[i].read().reachable {
            c += 1;
        }
        i += 1;
    }
    c
}

/// wf: the free count is exact, the cursor designates a free slot
fn wf(l: &FreeList<u32>) -> bool {
    l.alloc_count == free_count(l) && l.cursor < l.elements.len() && !l.elements[l.cursor].read().reachable
}

fn snap(l: &FreeList<u32>) -> [(bool, u32); N] {
    let mut s = [(false, 0u32); N];
    let mut i = 0;
    while i < l.elements.len() && i < N {
        let g = l.elements[i].read();
        s[i] = (g.reachable, g.value);
        i += 1;
    }
    s
}

#[kani::proof]
#[kani::unwind(5)]
fn allocate_contract() {
    let mut l = any_list(N);
    kani::assume(wf(&l) && l.alloc_count >= 2);
    let before = snap(&l);
    let c0 = l.cursor;
    let a0 = l.alloc_count;
    let v: u32 = kani::any();
    let h = l.allocate(v);
    // the handle designates the slot that was at the cursor, which was free
    assert!(!before[c0].0);
    let target = h.inner.upgrade().unwrap();
    assert!(StandardShared::ptr_eq(&target, &l.elements[c0]));
    assert!(h.get() == v);
    let after = snap(&l);
    assert!(after[c0] == (true, v));
    let mut i = 0;
    while i < N {
        if i != c0 {
            assert!(after[i] == before[i], "allocation touched another slot (a reachable slot must never be overwritten)");
        }
        i += 1;
    }
    assert!(l.alloc_count == a0 - 1);
    assert!(l.elements.len() == N);
    assert!(wf(&l), "the cursor must designate a free slot again");
    kani::cover!(c0 == 2 && l.cursor == 0);
}

#[kani::proof]
#[kani::unwind(5)]
fn weak_collection_contract() {
    let mut l = any_list(N);
    kani::assume(wf(&l));
    // an arbitrary subset of the slots has a live handle somewhere in the program
    let mut handles: Vec<HeapRef<u32>> = Vec::new();
    let mut held = [false; N];
    let mut i = 0;
    while i < N {
        let hold: bool = kani::any();
        if hold {
            handles.push(HeapRef { inner: StandardShared::downgrade(&l.elements[i]) });
            held[i] = true;
        }
        i += 1;
    }
    let before = snap(&l);
    let a0 = l.alloc_count;
    let r = l.weak_collection();
    let after = snap(&l);
    let mut freed = 0;
    let mut k = 0;
    while k < N {
        assert!(after[k].1 == before[k].1, "a collection must not change stored contents");
        if held[k] {
            assert!(after[k].0 == before[k].0, "a slot that still has a handle was reclaimed");
        } else {
            assert!(!after[k].0, "a slot nobody can reach stays allocated");
            if before[k].0 {
                freed += 1;
            }
        }
        k += 1;
    }
    assert!(r == freed && l.alloc_count == a0 + freed);
    assert!(l.alloc_count == free_count(&l));
    core::mem::forget(handles);
}

#[kani::proof]
#[kani::unwind(5)]
fn recount_contract() {
    let mut l = any_list(N);
    let before = snap(&l);
    l.recount();
    assert!(l.alloc_count == free_count(&l));
    assert!(snap(&l) == before);
    assert!(l.is_heap_full() == (l.alloc_count == 0));
    l.mark_all_unreachable();
    let after = snap(&l);
    let mut k = 0;
    while k < N {
        assert!(!after[k].0 && after[k].1 == before[k].1);
        k += 1;
    }
    l.recount();
    assert!(l.alloc_count == N);
    // strong_collection never frees anything by itself (it only re-checks unmarked slots)
    assert!(l.strong_collection() == 0);
}

#[kani::proof]
#[kani::unwind(4)]
fn grow_by_contract() {
    // one existing (arbitrary) slot, grow by 1 or 2
    let mut l = any_list(1);
    l.recount();
    let a0 = l.alloc_count;
    let before = snap(&l);
    let two: bool = kani::any();
    let amount = if two { 2 } else { 1 };
    l.grow_by(amount);
    assert!(l.elements.len() == 1 + amount);
    assert!(l.cursor == 1);
    assert!(l.alloc_count == a0 + amount && l.grow_count == 1);
    {
        let g = l.elements[0].read();
        assert!((g.reachable, g.value) == before[0]);
    }
    let mut j = 1;
    while j < 1 + amount {
        let g = l.elements[j].read();
        assert!(!g.reachable && g.value == 0);
        j += 1;
    }
    assert!(wf(&l));
}

fn cell(reachable: bool, v: SteelVal) -> StandardSharedMut<HeapAllocated<SteelVal>> {
    let mut h = HeapAllocated::new(v);
    h.reachable = reachable;
    StandardShared::new(MutContainer::new(h))
}

fn mark_ref_check(leaf: bool, already: bool) {
    let inner = cell(false, SteelVal::IntV(1));
    let c = if leaf {
        cell(already, SteelVal::IntV(kani::any()))
    } else {
        cell(already, SteelVal::HeapAllocated(HeapRef { inner: StandardShared::downgrade(&inner) }))
    };
    let mut queue: Vec<SteelVal> = Vec::new();
    let mut ctx = MarkAndSweepContext { queue: &mut queue, stats: MarkAndSweepStats::default() };
    ctx.mark_heap_reference(&c);
    assert!(c.read().reachable, "a mark is never cleared / the visited cell is marked");
    assert!(matches!(c.read().value, SteelVal::IntV(_)) == leaf);
    let expected = if already || leaf { 0 } else { 1 };
    assert!(ctx.queue.len() == expected);
    // second visit: nothing more (termination on cycles)
    ctx.mark_heap_reference(&c);
    assert!(ctx.queue.len() == expected && c.read().reachable);
    assert!(!inner.read().reachable, "marking one cell must not mark what it points to before it is visited");
}

#[kani::proof]
#[kani::unwind(4)]
fn mark_heap_reference_contract() {
    mark_ref_check(true, false);
    mark_ref_check(true, true);
    mark_ref_check(false, false);
    mark_ref_check(false, true);
}

#[kani::proof]
#[kani::unwind(5)]
fn mark_heap_vector_contract() {
    let inner = cell(false, SteelVal::Void);
    let h = SteelVal::HeapAllocated(HeapRef { inner: StandardShared::downgrade(&inner) });
    let already: bool = kani::any();
    let mut hv = HeapAllocated::new(vec![SteelVal::IntV(3), h]);
    hv.reachable = already;
    let v: StandardSharedMut<HeapAllocated<Vec<SteelVal>>> = StandardShared::new(MutContainer::new(hv));
    let mut queue: Vec<SteelVal> = Vec::new();
    let mut ctx = MarkAndSweepContext { queue: &mut queue, stats: MarkAndSweepStats::default() };
    ctx.mark_heap_vector(&v);
    assert!(v.read().reachable);
    let expected = if already { 0 } else { 1 };
    assert!(ctx.queue.len() == expected);
    ctx.mark_heap_vector(&v);
    assert!(ctx.queue.len() == expected);
    assert!(v.read().value.len() == 2);
}

#[kani::proof]
#[kani::unwind(3)]
fn heapref_get_set_contract() {
    let ra: bool = kani::any();
    let va: u32 = kani::any();
    let a = elem(ra, va);
    let b = elem(true, 77);
    let mut h = HeapRef { inner: StandardShared::downgrade(&a) };
    let hb = HeapRef { inner: StandardShared::downgrade(&b) };
    assert!(h.get() == va && !h.ptr_eq(&hb));
    let x: u32 = kani::any();
    assert!(h.set(x) == va);
    assert!(h.get() == x && a.read().reachable == ra);
    // the other cell is untouched
    assert!(b.read().value == 77 && b.read().reachable);
}

#[kani::proof]
#[kani::unwind(3)]
fn heapref_set_variants_contract() {
    let a = elem(true, 5);
    let h = HeapRef { inner: StandardShared::downgrade(&a) };
    let y: u32 = kani::any();
    assert!(h.set_and_return(y) == 5 && h.get() == y);
    let z: u32 = kani::any();
    assert!(h.set_interior_mut(z) == y && h.get() == z && a.read().reachable);
}

#[kani::proof]
#[kani::unwind(3)]
fn maybe_get_from_weak_contract() {
    let marked: bool = kani::any();
    let v: u32 = kani::any();
    let a = elem(marked, v);
    let h = HeapRef { inner: StandardShared::downgrade(&a) };
    let other: bool = kani::any();
    let h2 = if other { Some(h.clone()) } else { None };
    let r = h.maybe_get_from_weak();
    if marked || other {
        assert!(r == Some(v) && a.read().value == v && a.read().reachable == marked);
    } else {
        assert!(r.is_none() && a.read().value == 0 && !a.read().reachable);
    }
    core::mem::forget(h2);
}

// ------------------------------------------------------------------ traversal arms of the marker
fn queued_handles(q: &Vec<SteelVal>) -> usize {
    let mut n = 0;
    let mut i = 0;
    while i < q.len() {
        if matches!(q[i], SteelVal::Closure(_)) {
            n += 1;
        }
        i += 1;
    }
    n
}

#[kani::proof]
#[kani::unwind(5)]
fn visitor_container_arms_contract() {
    // non-leaf children (values that can lead to heap handles): closures
    let h1 = SteelVal::Closure(Gc::new(ByteCodeLambda { captures: Vec::new(), contract: None }));
    let h2 = SteelVal::Closure(Gc::new(ByteCodeLambda { captures: Vec::new(), contract: None }));
    let leaf = || SteelVal::IntV(1);
    let mut queue: Vec<SteelVal> = Vec::new();
    let mut ctx = MarkAndSweepContext { queue: &mut queue, stats: MarkAndSweepStats::default() };
    // hash map: a handle as KEY and a handle as VALUE both have to be walked
    ctx.visit_hash_map(SteelHashMap(Gc::new(vec![(h1.clone(), leaf()), (leaf(), h2.clone())])));
    assert!(queued_handles(ctx.queue) == 2, "hash-map keys and values are both traversed");
    ctx.queue.clear();
    ctx.visit_hash_set(SteelHashSet(Gc::new(vec![leaf(), h1.clone()])));
    assert!(queued_handles(ctx.queue) == 1);
    ctx.queue.clear();
    ctx.visit_immutable_vector(SteelVector(Gc::new(vec![h1.clone(), h2.clone()])));
    assert!(queued_handles(ctx.queue) == 2);
    ctx.queue.clear();
    ctx.visit_list(List(Gc::new(vec![leaf(), h1.clone()])));
    assert!(queued_handles(ctx.queue) == 1);
    ctx.queue.clear();
    ctx.visit_steel_struct(Gc::new(UserDefinedStruct { fields: vec![h1.clone(), leaf()] }));
    assert!(queued_handles(ctx.queue) == 1);
    ctx.queue.clear();
    ctx.visit_stream(Gc::new(LazyStream { initial_value: h1.clone(), stream_thunk: h2.clone() }));
    assert!(queued_handles(ctx.queue) == 2);
    ctx.queue.clear();
    ctx.visit_pair(Gc::new(Pair { car: h1.clone(), cdr: h2.clone() }));
    assert!(queued_handles(ctx.queue) == 2);
    ctx.queue.clear();
    ctx.visit_boxed_value(Gc::new(MutContainer::new(h1.clone())));
    assert!(queued_handles(ctx.queue) == 1);
    ctx.queue.clear();
    ctx.visit_closure(Gc::new(ByteCodeLambda { captures: vec![h1.clone(), leaf()], contract: Some(h2.clone()) }));
    assert!(queued_handles(ctx.queue) == 2);
}

#[kani::proof]
#[kani::unwind(4)]
fn visitor_handle_arms_contract() {
    let c = cell(false, SteelVal::IntV(9));
    let h = HeapRef { inner: StandardShared::downgrade(&c) };
    let mut queue: Vec<SteelVal> = Vec::new();
    let mut ctx = MarkAndSweepContext { queue: &mut queue, stats: MarkAndSweepStats::default() };
    ctx.visit_heap_allocated(h);
    assert!(c.read().reachable);
}

// ------------------------------------------------------------------ host root table
fn has(r: &Roots, t: &RootToken) -> bool {
    r.roots.contains_key(&(t.generation, t.offset))
}

#[kani::proof]
#[kani::unwind(6)]
fn host_roots_contract() {
    let mut r = Roots::default();
    let a = r.root(SteelVal::IntV(1));
    let bump: bool = kani::any();
    if bump {
        r.increment_generation();
    }
    let b = r.root(SteelVal::IntV(2));
    assert!(a != b && has(&r, &a) && has(&r, &b));
    let free_a: bool = kani::any();
    if free_a {
        r.free(&a);
        assert!(!has(&r, &a));
    }
    assert!(has(&r, &b));
    let c = r.root(SteelVal::IntV(3));
    assert!(c != b, "a new root took the key of a live one");
    assert!(has(&r, &b) && has(&r, &c));
    assert!(r.roots.len() == if free_a { 2 } else { 3 }, "a live root lost its table entry");
    r.free(&c);
    assert!(has(&r, &b) && !has(&r, &c));
    core::mem::forget((a, b, c));
}
