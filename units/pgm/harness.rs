// Contract harnesses for the call-fusing peephole (unit `pgm`). Child module of x_program.rs.
use super::*;
use crate::prelude::*;

fn any_filler() -> Instruction {
    let k: u8 = kani::any();
    let op = match k % 4 {
        0 => OpCode::READLOCAL,
        1 => OpCode::PUSHCONST,
        2 => OpCode::POPPURE,
        _ => OpCode::IF,
    };
    let p: u32 = kani::any();
    kani::assume(p < (1 << 24));
    Instruction { op_code: op, payload_size: u24::from_u32(p), contents: None }
}

/// [filler][PUSH g][call n][filler] for an ORDINARY global g (not one of the primitives the pass specialises)
#[kani::proof]
#[kani::unwind(10)]
fn call_global_fusion_keeps_call_kind() {
    let id: u32 = kani::any();
    kani::assume(id >= 100);
    let prim: bool = kani::any();
    let g = InternedString { id, prim };
    let idx: u32 = kani::any();
    let n: u32 = kani::any();
    kani::assume(idx < (1 << 24) && n < (1 << 24));
    let call = match kani::any::<u8>() % 4 {
        0 => OpCode::FUNC,
        1 => OpCode::FUNCNOARITY,
        2 => OpCode::TAILCALL,
        _ => OpCode::TAILCALLNOARITY,
    };
    let (f0, f3) = (any_filler(), any_filler());
    let mut code = [
        f0,
        Instruction { op_code: OpCode::PUSH, payload_size: u24::from_u32(idx), contents: Some(Expr::Atom(SyntaxObject { ty: TokenType::Identifier(g) })) },
        Instruction { op_code: call, payload_size: u24::from_u32(n), contents: None },
        f3,
    ];
    convert_call_globals(&mut code);
    // frame: nothing else changes, the call instruction keeps its opcode and argument count
    assert!(code[0] == f0 && code[3] == f3);
    assert!(code[2].op_code == call && code[2].payload_size.to_u32() == n);
    // the fused instruction addresses the same global ...
    assert!(code[1].payload_size.to_u32() == idx, "the fused call addresses another global slot");
    assert!(code[1].contents == Some(Expr::Atom(SyntaxObject { ty: TokenType::Identifier(g) })));
    // ... and is a call of the SAME kind: a tail call stays a tail call (constant space), a checked call stays checked
    // (CALLGLOBAL and CALLPRIMITIVE are executed by the same interpreter arm, likewise their tail forms: which of the two is
    // chosen is an optimisation, not part of the contract)
    let got = code[1].op_code;
    let ok = match call {
        OpCode::FUNC => got == OpCode::CALLGLOBAL || got == OpCode::CALLPRIMITIVE,
        OpCode::FUNCNOARITY => got == OpCode::CALLGLOBALNOARITY,
        OpCode::TAILCALL => got == OpCode::CALLGLOBALTAIL || got == OpCode::CALLPRIMITIVETAIL,
        _ => got == OpCode::CALLGLOBALTAILNOARITY,
    };
    assert!(ok, "the fused global call is of another kind than the call it replaces (tail <-> non-tail, checked <-> unchecked)");
}

/// a PUSH that is not followed by a call, or whose operand is not an identifier, is left alone
#[kani::proof]
#[kani::unwind(6)]
fn call_global_fusion_frame() {
    let idx: u32 = kani::any();
    kani::assume(idx < (1 << 24));
    let not_ident: bool = kani::any();
    let f = any_filler();
    let contents = if not_ident { Some(Expr::List) } else { Some(Expr::Atom(SyntaxObject { ty: TokenType::Identifier(InternedString { id: 200, prim: false }) })) };
    let second = if not_ident { Instruction { op_code: OpCode::TAILCALL, payload_size: u24::from_u32(1), contents: None } } else { f };
    let mut code = [Instruction { op_code: OpCode::PUSH, payload_size: u24::from_u32(idx), contents }, second];
    let before = code;
    convert_call_globals(&mut code);
    assert!(code[0] == before[0] && code[1] == before[1]);
    let mut empty: [Instruction; 0] = [];
    convert_call_globals(&mut empty);
}
