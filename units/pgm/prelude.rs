// Unit `pgm` prelude (TRUSTED, hand written): the types the verbatim text of
// `compiler/program.rs::convert_call_globals` mentions. REAL: OpCode (steel-gen), u24 (extracted).
//  * Instruction with its three real fields; Expr::Atom carries the identifier token
//  * InternedString as a number + ghost flag "its text starts with #%prim." (resolve() returns a fixed text accordingly)
//  * the interned symbol statics as fixed numbers (they only have to be pairwise distinct)
#![allow(dead_code, unused_imports, non_upper_case_globals)]
pub use steel_gen::opcode::OpCode;
pub use crate::x_instructions::u24;

#[derive(Clone, Copy, PartialEq, Eq, Debug)]
pub struct InternedString {
    pub id: u32,
    pub prim: bool,
}
impl InternedString {
    pub fn resolve(&self) -> &'static str {
        if self.prim {
            "#%prim.f"
        } else {
            "f"
        }
    }
}
#[derive(Clone, Copy, PartialEq, Debug)]
pub enum TokenType<S> {
    Identifier(S),
    Other,
}
#[derive(Clone, Copy, PartialEq, Debug)]
pub struct SyntaxObject {
    pub ty: TokenType<InternedString>,
}
#[derive(Clone, Copy, PartialEq, Debug)]
pub enum Expr {
    Atom(SyntaxObject),
    List,
}
#[derive(Clone, Copy, PartialEq, Debug)]
pub struct Instruction {
    pub op_code: OpCode,
    pub payload_size: u24,
    pub contents: Option<Expr>,
}

pub struct Sym(pub InternedString);
impl core::ops::Deref for Sym {
    type Target = InternedString;
    fn deref(&self) -> &InternedString {
        &self.0
    }
}
macro_rules! syms {
    ($($name:ident = $id:expr, $prim:expr;)*) => {
        $(pub static $name: Sym = Sym(InternedString { id: $id, prim: $prim });)*
        pub const SPECIAL_IDS: &[u32] = &[$($id),*];
    };
}
syms! {
    PRIM_CONS_SYMBOL = 1, true;
    BOX = 2, false;
    PRIM_BOX = 3, true;
    UNBOX = 4, false;
    PRIM_UNBOX = 5, true;
    SETBOX = 6, false;
    PRIM_SETBOX = 7, true;
    PRIM_CAR = 8, true;
    PRIM_LIST_SYMBOL = 9, true;
    PRIM_LIST_REF = 10, true;
    PRIM_VECTOR_REF = 11, true;
    PRIM_CDR = 12, true;
    PRIM_NOT = 13, true;
    PRIM_NULL = 14, true;
    LIST_SYMBOL = 15, false;
}
