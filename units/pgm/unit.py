"""Unit `pgm` (C09, C01; engine E2): the peephole that fuses `PUSH global; call` into one global-call instruction (compiler/program.rs)."""
import os
import shutil

from vlib.common import REPO, VERIF, read, write, sha256, scan_assumptions
from vlib.extract import Extractor
from vlib import kani

NAME = "pgm"
PROGRAM = "crates/steel-core/src/compiler/program.rs"
INSTR = "crates/steel-core/src/core/instructions.rs"


def build(scratch):
    ex = Extractor()
    fn = ex.fn(PROGRAM, "convert_call_globals")
    ins = ["#[derive(Copy, Clone, PartialEq, PartialOrd, Eq, Ord, Hash, Debug)]\n#[allow(non_camel_case_types)]\n#[repr(transparent)]\n" + ex.item(INSTR, "struct", "u24"),
           ex.impl_block(INSTR, r"impl u24")]
    crate = os.path.join(scratch, "pgmx")
    os.makedirs(os.path.join(crate, "src"))
    shutil.copy(os.path.join(REPO, "Cargo.lock"), os.path.join(crate, "Cargo.lock"))
    write(os.path.join(crate, "Cargo.toml"), f"""[package]
name = "pgmx"
version = "0.0.0"
edition = "2021"

[features]
default = ["jit2"]
jit2 = []

[dependencies]
steel-gen = {{ path = "{REPO}/crates/steel-gen" }}

[workspace]

[lints.rust]
unexpected_cfgs = {{ level = "allow", check-cfg = ['cfg(kani)'] }}
""")
    allow = "#![allow(dead_code, unused_imports, unused_variables, unreachable_patterns, unused_mut, unused_assignments)]\n"
    prelude = read(os.path.join(VERIF, "units/pgm/prelude.rs"))
    harness = read(os.path.join(VERIF, "units/pgm/harness.rs"))
    write(os.path.join(crate, "src/prelude.rs"), prelude)
    write(os.path.join(crate, "src/x_instructions.rs"), allow + "use crate::prelude::OpCode;\n\n" + "\n\n".join(ins) + "\n")
    write(os.path.join(crate, "src/x_program.rs"), allow + "use crate::prelude::*;\n\n" + fn + "\n\n#[cfg(kani)]\n#[path = \"harness.rs\"]\nmod harness;\n")
    write(os.path.join(crate, "src/harness.rs"), harness)
    write(os.path.join(crate, "src/lib.rs"), "#![allow(dead_code, unused_imports, unused_macros)]\npub mod prelude;\npub mod x_instructions;\npub mod x_program;\n")
    meta = {"unit": NAME, "engine": "E2: verbatim item extraction into a mini crate + Kani", "items": ex.items,
            "prelude": "units/pgm/prelude.rs", "prelude_sha256": sha256(prelude), "harness_sha256": sha256(harness),
            "extractor_edits": "D1; D2 (feature jit2 on, as in the baseline build)",
            "assumption_scan": scan_assumptions(harness, "units/pgm/harness.rs") + scan_assumptions(prelude, "units/pgm/prelude.rs")}
    return crate, meta


OBS = {
    "call_global_fusion_keeps_call_kind": dict(kind="proof", functions=["convert_call_globals"],
        contract="for EVERY ordinary global (any name that is not one of the specialised primitives, `#%prim.` or not), every slot index, every argument count and each of FUNC / FUNCNOARITY / TAILCALL / TAILCALLNOARITY: `PUSH g; call n` becomes `<fused> g; call n` where the fused opcode is the global call of the SAME kind - CALLGLOBALTAIL / CALLPRIMITIVETAIL / CALLGLOBALTAILNOARITY for a tail call (so a tail call to a global stays a tail call), CALLGLOBAL / CALLPRIMITIVE / CALLGLOBALNOARITY otherwise, arity-checked iff the original call was; the slot index, the argument count and the surrounding instructions are unchanged"),
    "call_global_fusion_frame": dict(kind="proof", functions=["convert_call_globals"], contract="a PUSH whose operand is not an identifier, or that is not followed by a call, is left alone; the empty program is accepted"),
}


def run_for(scratch, tier, prop):
    return run_unit(scratch, tier)


def run_unit(scratch, tier):
    crate, meta = build(scratch)
    p = os.path.join(crate, "src/harness.rs")
    write(p, read(p) + "\n#[kani::proof]\n#[kani::unwind(6)]\nfn canary_must_fail() {\n    let mut code = [Instruction { op_code: OpCode::PUSH, payload_size: u24::from_u32(1), contents: Some(Expr::Atom(SyntaxObject { ty: TokenType::Identifier(InternedString { id: 300, prim: false }) })) },\n        Instruction { op_code: OpCode::FUNC, payload_size: u24::from_u32(1), contents: None }];\n    convert_call_globals(&mut code);\n    assert!(code[0].op_code == OpCode::PUSH, \"canary: must be reported as failing\");\n}\n")
    specs = [dict(name=n, kind=o["kind"], contract=o["contract"], functions=o["functions"], bound=o.get("bound")) for n, o in OBS.items()]
    specs.append(dict(name="canary_must_fail", kind="canary", contract="assert that must fail"))
    obs, cmd, out = kani.run_harnesses(crate, specs, NAME, "pgm", jobs=3, timeout=3000, harness_timeout="10m",
                                       extra_flags=["--no-assertion-reach-checks"])
    kani.attach_counterexamples(obs, crate, "pgm", out)
    return obs, meta, cmd
