"""Unit `pers` (C03 kernel 2, engine E2): primitives that update persistent collections in place when unique."""
import os
import shutil

from vlib.common import REPO, VERIF, AnchorLost, read, write, sha256, scan_assumptions
from vlib.extract import Extractor
from vlib import kani

NAME = "pers"
HM = "crates/steel-core/src/primitives/hashmaps.rs"
HS = "crates/steel-core/src/primitives/hashsets.rs"
VEC = "crates/steel-core/src/primitives/vectors.rs"
STR = "crates/steel-core/src/primitives/strings.rs"

FNS = [(HM, "hash_remove"), (HM, "hash_insert"), (HM, "clear"), (HM, "hm_union"),
       (HS, "hs_insert"), (HS, "hashset_clear"),
       (VEC, "immutable_vector_rest"), (VEC, "immutable_vector_push"), (VEC, "immutable_vector_push_front"),
       (VEC, "immutable_vector_set"), (VEC, "immutable_vector_take"), (VEC, "immutable_vector_drop"),
       (STR, "string_push"), (STR, "string_to_uninterned_symbol"), (VEC, "bounds_mut"), (VEC, "bounds")]


def build(scratch):
    ex = Extractor()
    parts = [ex.fn(f, n) for f, n in FNS]
    crate = os.path.join(scratch, "persx")
    os.makedirs(os.path.join(crate, "src"))
    shutil.copy(os.path.join(REPO, "Cargo.lock"), os.path.join(crate, "Cargo.lock"))
    write(os.path.join(crate, "Cargo.toml"), """[package]
name = "persx"
version = "0.0.0"
edition = "2021"

[dependencies]

[workspace]

[lints.rust]
unexpected_cfgs = { level = "allow", check-cfg = ['cfg(kani)'] }
""")
    prelude = read(os.path.join(VERIF, "units/pers/prelude.rs"))
    harness = read(os.path.join(VERIF, "units/pers/harness.rs"))
    write(os.path.join(crate, "src/prelude.rs"), prelude)
    write(os.path.join(crate, "src/x_prims.rs"), "#![allow(dead_code, unused_imports, unused_variables, unused_mut, unused_unsafe)]\nuse crate::prelude::*;\nuse crate::prelude::{format, stop};\n\n"
          + "\n\n".join(parts) + "\n\n#[cfg(kani)]\n#[path = \"harness.rs\"]\nmod harness;\n")
    write(os.path.join(crate, "src/harness.rs"), harness)
    write(os.path.join(crate, "src/lib.rs"), "#![allow(dead_code, unused_imports, unused_macros)]\n#[macro_use]\npub mod prelude;\npub mod x_prims;\n")
    meta = {"unit": NAME, "engine": "E2: verbatim item extraction into a mini crate + Kani", "items": ex.items,
            "prelude": "units/pers/prelude.rs", "prelude_sha256": sha256(prelude), "harness_sha256": sha256(harness),
            "extractor_edits": "D1 (the #[function(..)] attributes, which generate the argument-stealing wrappers, are not copied)",
            "assumption_scan": scan_assumptions(harness, "units/pers/harness.rs") + scan_assumptions(prelude, "units/pers/prelude.rs")}
    return crate, meta


B = "concrete collections of 2 entries, key present / absent, a second holder exists or not"
C = ("with another holder of the value alive: what that holder observes is unchanged, the result equals the functional update of the old "
     "contents and is a different allocation; as the only holder: the result equals the update and the argument slot is left #<void> (so no second reference survives)")
OBS = {n: dict(kind="bounded", bound=B, functions=[f], contract=f + ": " + C) for n, f in [
    ("hash_insert_persistent", "hash_insert"), ("hash_insert_unique_persistent", "hash_insert"),  ("hash_remove_persistent", "hash_remove"), ("hash_clear_persistent", "clear"),
    ("hash_union_both_shared", "hm_union"), ("hash_union_left_shared", "hm_union"), ("hash_union_right_shared", "hm_union"), ("hash_union_unique", "hm_union"), ("hashset_insert_persistent", "hs_insert"), ("hashset_clear_persistent", "hashset_clear"),
    ("vector_push_persistent", "immutable_vector_push"), ("vector_push_front_persistent", "immutable_vector_push_front"),
    ("vector_rest_persistent", "immutable_vector_rest"), ("vector_set_persistent", "immutable_vector_set"), ("vector_take_persistent", "immutable_vector_take"), ("vector_drop_persistent", "immutable_vector_drop"),
    ("string_push_persistent", "string_push"),
    ("uninterned_symbol_persistent", "string_to_uninterned_symbol")]}


BOUNDS_C = ("for every optional start / end (any isize) and every length: Ok((s, e)) implies s <= e <= len with s, e the given values (defaults 0 and len); "
            "a negative bound, an end beyond the length or start > end is a ContractViolation error value; more than two bounds is an ArityMismatch - never an out-of-range pair")
for _n in ["both_shared", "left_shared", "right_shared", "unique"]:
    OBS["hash_union_small_" + _n] = dict(kind="bounded", bound="one-entry maps with the SAME key and different values (the smallest maps that distinguish the operand order)", functions=["hm_union"],
                                         contract="hm_union: " + C + "; the value of a common key is the LEFT map's")
OBS["vector_set_index_total"] = dict(kind="proof", functions=["immutable_vector_set"], props=["C07", "C03"],
    contract="for EVERY index (any usize), vector shared or not: an index below the length yields the functional update of exactly that element, an index at or beyond the length is an error value - never a panic; another holder observes nothing")
OBS["bounds_mut_contract"] = dict(kind="bounded", bound="slices of length <= 4 (bounds are any isize)", functions=["bounds_mut"], contract=BOUNDS_C, props=["C07", "C01"])
OBS["bounds_contract"] = dict(kind="bounded", bound="vectors of length <= 2 (bounds are any isize)", functions=["bounds"], contract=BOUNDS_C, props=["C07", "C01"])


def run_for(scratch, tier, prop):
    return run_unit(scratch, tier, prop)


def run_unit(scratch, tier, prop="C03"):
    crate, meta = build(scratch)
    p = os.path.join(crate, "src/harness.rs")
    write(p, read(p) + "\n#[kani::proof]\n#[kani::unwind(6)]\nfn canary_must_fail() {\n    let g = Gc::new(1u8);\n    let mut h = g.clone();\n    assert!(Gc::get_mut(&mut h).is_some(), \"canary: must be reported as failing\");\n}\n")
    specs = [dict(name=n, kind=o["kind"], contract=o["contract"], functions=o["functions"], bound=o.get("bound")) for n, o in OBS.items()
             if (tier == "thorough" or not (n.startswith("hash_union") and not n.startswith("hash_union_small"))) and prop in o.get("props", ["C03"])]
    specs.append(dict(name="canary_must_fail", kind="canary", contract="assert that must fail"))
    obs, cmd, out = kani.run_harnesses(crate, specs, NAME, "pers", jobs=5, timeout=6000, harness_timeout=("40m" if tier == "thorough" else "20m"),
                                       extra_flags=["--no-assertion-reach-checks"])
    kani.attach_counterexamples(obs, crate, "pers", out)
    return obs, meta, cmd
