// Environment prelude of unit `pers` (C03 kernel 2, engine E2). HAND-WRITTEN AND TRUSTED.
// Restated (NOT verified):
//   * Gc<T> = std::rc::Rc<T>: `get_mut` answers Some exactly when the reference is the only one
//     and never changes the count - which is the contract PROVED for the real
//     BiasedRc::get_mut / make_mut in unit `rc` (C03 kernel 1 / C05)
//   * im/imbl HashMap, HashSet and Vector as exact finite map / set / sequence models over Vec
//     (assumed contracts of the persistent-collection crates)
//   * SteelVal reduced; message-less stop!
#![allow(dead_code, unused_imports, unused_macros, unused_variables)]
use std::rc::Rc;
pub use core::hint::unreachable_unchecked;

#[derive(Clone, Copy, Debug, PartialEq, Eq)]
pub enum ErrorKind {
    ArityMismatch,
    TypeMismatch,
    ContractViolation,
    Generic,
}
#[derive(Clone, Copy, Debug, PartialEq, Eq)]
pub struct SteelErr {
    pub kind: ErrorKind,
}
pub type Result<T> = core::result::Result<T, SteelErr>;
pub struct Msg;
macro_rules! stop {
    ($type:ident => $($rest:tt)+) => {
        return Err($crate::prelude::SteelErr { kind: $crate::prelude::ErrorKind::$type })
    };
}
macro_rules! format {
    ($($rest:tt)*) => {
        $crate::prelude::Msg
    };
}
pub(crate) use {format, stop};

// The payload sits in a ManuallyDrop so that dropping the last reference does not run the
// (recursive) drop glue of SteelVal inside the verifier; counting is the real Rc's.
#[derive(Debug)]
pub struct Gc<T>(pub Rc<core::mem::ManuallyDrop<T>>);
impl<T> Gc<T> {
    pub fn new(v: T) -> Self {
        Gc(Rc::new(core::mem::ManuallyDrop::new(v)))
    }
    pub fn get_mut(this: &mut Self) -> Option<&mut T> {
        match Rc::get_mut(&mut this.0) {
            Some(m) => Some(&mut **m),
            None => None,
        }
    }
    pub fn strong_count(this: &Self) -> usize {
        Rc::strong_count(&this.0)
    }
    pub fn ptr_eq(a: &Self, b: &Self) -> bool {
        Rc::ptr_eq(&a.0, &b.0)
    }
}
impl<T: Clone> Gc<T> {
    pub fn unwrap(&self) -> T {
        (**self.0).clone()
    }
    pub fn make_mut(this: &mut Self) -> &mut T {
        &mut **Rc::make_mut(&mut this.0)
    }
}
impl<T> Clone for Gc<T> {
    fn clone(&self) -> Self {
        Gc(self.0.clone())
    }
}
impl<T> core::ops::Deref for Gc<T> {
    type Target = T;
    fn deref(&self) -> &T {
        &self.0
    }
}

// ---------------- exact finite-map / set / sequence models
// fixed-capacity (4) association arrays: no heap traffic, so CBMC can evaluate them
#[derive(Clone, Debug)]
pub struct HashMap<K, V> {
    pub e: [Option<(K, V)>; 4],
}
impl<K, V> Default for HashMap<K, V> {
    fn default() -> Self {
        HashMap { e: [None, None, None, None] }
    }
}
impl<K: PartialEq + Clone, V: Clone> HashMap<K, V> {
    pub fn new() -> Self {
        Self::default()
    }
    fn pos(&self, k: &K) -> Option<usize> {
        let mut i = 0;
        while i < 4 {
            if let Some((kk, _)) = &self.e[i] {
                if *kk == *k {
                    return Some(i);
                }
            }
            i += 1;
        }
        None
    }
    pub fn insert(&mut self, k: K, v: V) -> Option<V> {
        if let Some(i) = self.pos(&k) {
            let old = self.e[i].take();
            self.e[i] = Some((k, v));
            return old.map(|x| x.1);
        }
        let mut i = 0;
        while i < 4 {
            if self.e[i].is_none() {
                self.e[i] = Some((k, v));
                return None;
            }
            i += 1;
        }
        panic!("map model capacity (4) exceeded");
    }
    pub fn remove(&mut self, k: &K) -> Option<V> {
        match self.pos(k) {
            Some(i) => self.e[i].take().map(|x| x.1),
            None => None,
        }
    }
    pub fn get(&self, k: &K) -> Option<&V> {
        match self.pos(k) {
            Some(i) => self.e[i].as_ref().map(|x| &x.1),
            None => None,
        }
    }
    pub fn update(&self, k: K, v: V) -> Self {
        let mut n = self.clone();
        n.insert(k, v);
        n
    }
    pub fn clear(&mut self) {
        self.e = [None, None, None, None];
    }
    pub fn len(&self) -> usize {
        let mut n = 0;
        let mut i = 0;
        while i < 4 {
            if self.e[i].is_some() {
                n += 1;
            }
            i += 1;
        }
        n
    }
    pub fn is_empty(&self) -> bool {
        self.len() == 0
    }
}

/// ghost switch for the quick-tier hm_union obligations: with `UNION_ABSTRACT` set, `union` is the
/// CALLEE CONTRACT of imbl's left-biased union specialised to two one-entry maps with the same
/// key (result == receiver) and records which map was the receiver and which the argument
pub static mut UNION_ABSTRACT: bool = false;
pub static mut UNION_LOG: Option<(isize, isize)> = None;
pub trait Tag {
    fn tag(&self) -> isize;
}
impl<K: PartialEq + Clone, V: Clone + Tag> HashMap<K, V> {
    fn first_tag(&self) -> isize {
        let mut i = 0;
        while i < 4 {
            if let Some((_, v)) = &self.e[i] {
                return v.tag();
            }
            i += 1;
        }
        -1
    }
    /// left-biased union
    pub fn union(self, other: Self) -> Self {
        if unsafe { UNION_ABSTRACT } {
            assert!(self.len() == 1 && other.len() == 1, "abstract union: one-entry maps only");
            unsafe { UNION_LOG = Some((self.first_tag(), other.first_tag())) };
            return self;
        }
        let mut n = self;
        let mut i = 0;
        while i < 4 {
            if let Some((k, v)) = &other.e[i] {
                if n.pos(k).is_none() {
                    n.insert(k.clone(), v.clone());
                }
            }
            i += 1;
        }
        n
    }
}

#[derive(Clone, Debug)]
pub struct HashSet<K> {
    pub e: [Option<K>; 4],
}
impl<K> Default for HashSet<K> {
    fn default() -> Self {
        HashSet { e: [None, None, None, None] }
    }
}
impl<K: PartialEq + Clone> HashSet<K> {
    pub fn new() -> Self {
        Self::default()
    }
    pub fn contains(&self, k: &K) -> bool {
        let mut i = 0;
        while i < 4 {
            if let Some(x) = &self.e[i] {
                if *x == *k {
                    return true;
                }
            }
            i += 1;
        }
        false
    }
    pub fn insert(&mut self, k: K) -> Option<K> {
        if self.contains(&k) {
            return Some(k);
        }
        let mut i = 0;
        while i < 4 {
            if self.e[i].is_none() {
                self.e[i] = Some(k);
                return None;
            }
            i += 1;
        }
        panic!("set model capacity (4) exceeded");
    }
    pub fn update(&self, k: K) -> Self {
        let mut n = self.clone();
        n.insert(k);
        n
    }
    pub fn clear(&mut self) {
        self.e = [None, None, None, None];
    }
    pub fn len(&self) -> usize {
        let mut n = 0;
        let mut i = 0;
        while i < 4 {
            if self.e[i].is_some() {
                n += 1;
            }
            i += 1;
        }
        n
    }
}

#[derive(Clone, Debug, PartialEq, Default)]
pub struct Vector<T> {
    pub e: Vec<T>,
}
impl<T: Clone> Vector<T> {
    pub fn new() -> Self {
        Vector { e: Vec::new() }
    }
    pub fn push_back(&mut self, v: T) {
        self.e.push(v)
    }
    pub fn push_front(&mut self, v: T) {
        self.e.insert(0, v)
    }
    pub fn pop_front(&mut self) -> Option<T> {
        if self.e.is_empty() {
            None
        } else {
            Some(self.e.remove(0))
        }
    }
    pub fn pop_back(&mut self) -> Option<T> {
        self.e.pop()
    }
    pub fn set(&mut self, i: usize, v: T) -> T {
        core::mem::replace(&mut self.e[i], v)
    }
    pub fn len(&self) -> usize {
        self.e.len()
    }
    pub fn is_empty(&self) -> bool {
        self.e.is_empty()
    }
    pub fn get(&self, i: usize) -> Option<&T> {
        self.e.get(i)
    }
    // as steel-imbl 7.1: take = clone + split_off, split_off asserts index <= len, skip saturates,
    // truncate is a no-op beyond the length
    pub fn take(&self, n: usize) -> Self {
        let mut left = self.clone();
        let _ = left.split_off(n);
        left
    }
    pub fn skip(&self, n: usize) -> Self {
        if n >= self.e.len() {
            Vector::new()
        } else {
            Vector { e: self.e[n..].to_vec() }
        }
    }
    pub fn truncate(&mut self, n: usize) {
        self.e.truncate(n)
    }
    pub fn split_off(&mut self, n: usize) -> Self {
        assert!(n <= self.e.len());
        Vector { e: self.e.split_off(n) }
    }
    pub fn slice<R: core::ops::RangeBounds<usize>>(&mut self, r: R) -> Self {
        let s = match r.start_bound() {
            core::ops::Bound::Included(a) => *a,
            core::ops::Bound::Excluded(a) => *a + 1,
            core::ops::Bound::Unbounded => 0,
        };
        let e = match r.end_bound() {
            core::ops::Bound::Included(a) => *a + 1,
            core::ops::Bound::Excluded(a) => *a,
            core::ops::Bound::Unbounded => self.e.len(),
        };
        Vector { e: self.e.drain(s..e).collect() }
    }
}

#[derive(Clone, Debug)]
pub struct SteelHashMap(pub Gc<HashMap<SteelVal, SteelVal>>);
impl From<Gc<HashMap<SteelVal, SteelVal>>> for SteelHashMap {
    fn from(g: Gc<HashMap<SteelVal, SteelVal>>) -> Self {
        SteelHashMap(g)
    }
}
#[derive(Clone, Debug)]
pub struct SteelHashSet(pub Gc<HashSet<SteelVal>>);
impl From<Gc<HashSet<SteelVal>>> for SteelHashSet {
    fn from(g: Gc<HashSet<SteelVal>>) -> Self {
        SteelHashSet(g)
    }
}
#[derive(Clone, Debug)]
pub struct SteelVector(pub Gc<Vector<SteelVal>>);
#[derive(Clone, Debug)]
pub struct SteelString(pub Gc<String>);
impl SteelString {
    pub fn as_str(&self) -> &str {
        self.0.as_str()
    }
}
impl From<String> for SteelString {
    fn from(s: String) -> Self {
        SteelString(Gc::new(s))
    }
}

#[derive(Clone, Debug, Default)]
pub enum SteelVal {
    #[default]
    Void,
    BoolV(bool),
    IntV(isize),
    CharV(char),
    StringV(SteelString),
    SymbolV(SteelString),
    HashMapV(SteelHashMap),
    HashSetV(SteelHashSet),
    VectorV(SteelVector),
}

/// equality used by the map/set models for KEYS: scalars by value, containers by identity
/// (non-recursive on purpose; the real structural equality of SteelVal is C11, not this unit)
impl PartialEq for SteelVal {
    fn eq(&self, o: &Self) -> bool {
        match (self, o) {
            (SteelVal::Void, SteelVal::Void) => true,
            (SteelVal::BoolV(a), SteelVal::BoolV(b)) => a == b,
            (SteelVal::IntV(a), SteelVal::IntV(b)) => a == b,
            (SteelVal::CharV(a), SteelVal::CharV(b)) => a == b,
            (SteelVal::StringV(a), SteelVal::StringV(b)) => Gc::ptr_eq(&a.0, &b.0),
            (SteelVal::SymbolV(a), SteelVal::SymbolV(b)) => Gc::ptr_eq(&a.0, &b.0),
            (SteelVal::HashMapV(a), SteelVal::HashMapV(b)) => Gc::ptr_eq(&a.0, &b.0),
            (SteelVal::HashSetV(a), SteelVal::HashSetV(b)) => Gc::ptr_eq(&a.0, &b.0),
            (SteelVal::VectorV(a), SteelVal::VectorV(b)) => Gc::ptr_eq(&a.0, &b.0),
            _ => false,
        }
    }
}

/// the optional trailing arguments of a primitive, already converted (steel_vm/builtin.rs)
pub struct RestArgsIter<'a, T> {
    pub items: [Option<Result<T>>; 3],
    pub pos: usize,
    pub n: usize,
    pub _p: core::marker::PhantomData<&'a ()>,
}
impl<'a, T: Copy> Iterator for RestArgsIter<'a, T> {
    type Item = Result<T>;
    fn next(&mut self) -> Option<Result<T>> {
        if self.pos < self.n {
            let r = self.items[self.pos];
            self.pos += 1;
            r
        } else {
            None
        }
    }
}
impl<'a, T: Copy> RestArgsIter<'a, T> {
    pub fn len(&self) -> usize {
        self.n - self.pos
    }
}

impl Tag for SteelVal {
    fn tag(&self) -> isize {
        match self {
            SteelVal::IntV(i) => *i,
            _ => -1,
        }
    }
}
