// Contract harnesses for the in-place-when-unique collection primitives (child of x_prims; unit `pers`, C03)
#![allow(unused_imports, dead_code)]
use super::*;
use crate::prelude::*;

fn iv(i: isize) -> SteelVal {
    SteelVal::IntV(i)
}

fn map2() -> HashMap<SteelVal, SteelVal> {
    let mut m = HashMap::new();
    m.insert(iv(1), iv(10));
    m.insert(iv(2), iv(20));
    m
}

fn set2() -> HashSet<SteelVal> {
    let mut s = HashSet::new();
    s.insert(iv(1));
    s.insert(iv(2));
    s
}

fn vec2() -> Vector<SteelVal> {
    let mut v = Vector::new();
    v.push_back(iv(1));
    v.push_back(iv(2));
    v
}

fn same_map(a: &HashMap<SteelVal, SteelVal>, b: &HashMap<SteelVal, SteelVal>) -> bool {
    if a.len() != b.len() {
        return false;
    }
    let mut i = 0;
    while i < 4 {
        if let Some((k, v)) = &a.e[i] {
            if b.get(k) != Some(v) {
                return false;
            }
        }
        i += 1;
    }
    true
}

fn same_set(a: &HashSet<SteelVal>, b: &HashSet<SteelVal>) -> bool {
    if a.len() != b.len() {
        return false;
    }
    let mut i = 0;
    while i < 4 {
        if let Some(k) = &a.e[i] {
            if !b.contains(k) {
                return false;
            }
        }
        i += 1;
    }
    true
}

/// key / element drawn from {1, 2, 3}: present or absent in the 2-entry collections
fn any_key() -> isize {
    let k: u8 = kani::any();
    kani::assume(k >= 1 && k <= 3);
    k as isize
}

macro_rules! map_harness {
    ($name:ident, [$(($sh:expr, $key:expr)),*], |$arg:ident, $k:ident, $v:ident| $call:expr, |$old:ident, $k2:ident, $v2:ident| $expected:expr) => {
        #[kani::proof]
        #[kani::unwind(6)]
        fn $name() {
            fn check(shared: bool, key: isize) {
            let g = Gc::new(map2());
            let alias = if shared { Some(g.clone()) } else { None };
            let mut $arg = SteelVal::HashMapV(SteelHashMap(g));
            let $k = key;
            let $v: isize = 77;
            let r = $call;
            let $old = map2();
            let $k2 = $k;
            let $v2 = $v;
            let expected: HashMap<SteelVal, SteelVal> = $expected;
            match r {
                Ok(SteelVal::HashMapV(SteelHashMap(res))) => {
                    assert!(same_map(&res, &expected), "the result is not the functional update of the old contents");
                    if let Some(a) = &alias {
                        assert!(same_map(a, &map2()), "another holder of the value observes the update");
                        assert!(!Gc::ptr_eq(a, &res));
                    } else {
                        assert!(matches!($arg, SteelVal::Void), "an in-place update must consume the argument");
                    }
                }
                _ => assert!(false, "expected a hash map"),
            }
            }
            $(check($sh, $key);)*
        }
    };
}

map_harness!(hash_insert_persistent, [(true, 1), (true, 3)], |arg, k, v| hash_insert(&mut arg, &mut iv(k), &mut iv(v)), |old, k, v| old.update(iv(k), iv(v)));
map_harness!(hash_insert_unique_persistent, [(false, 2), (false, 3)], |arg, k, v| hash_insert(&mut arg, &mut iv(k), &mut iv(v)), |old, k, v| old.update(iv(k), iv(v)));
map_harness!(hash_remove_persistent, [(true, 1), (true, 3), (false, 2), (false, 3)], |arg, k, v| hash_remove(&mut arg, iv(k)), |old, k, v| {
    let mut o = old;
    o.remove(&iv(k));
    o
});
map_harness!(hash_clear_persistent, [(true, 1), (false, 1)], |arg, k, v| clear(&mut arg), |old, k, v| HashMap::new());

macro_rules! union_harness {
    ($name:ident, $sl:expr, $sr:expr) => {
        #[kani::proof]
        #[kani::unwind(6)]
        fn $name() {
            union_check($sl, $sr);
        }
    };
}
union_harness!(hash_union_both_shared, true, true);
union_harness!(hash_union_left_shared, true, false);
union_harness!(hash_union_right_shared, false, true);
union_harness!(hash_union_unique, false, false);

fn union_check(sl: bool, sr: bool) {
    let gl = Gc::new(map2());
    let mut right = HashMap::new();
    right.insert(iv(2), iv(99));
    right.insert(iv(3), iv(30));
    let gr = Gc::new(right.clone());
    let al = if sl { Some(gl.clone()) } else { None };
    let ar = if sr { Some(gr.clone()) } else { None };
    let mut l = SteelVal::HashMapV(SteelHashMap(gl));
    let mut r = SteelVal::HashMapV(SteelHashMap(gr));
    let res = hm_union(&mut l, &mut r);
    let expected = map2().union(right.clone());
    match res {
        Ok(SteelVal::HashMapV(SteelHashMap(m))) => {
            assert!(same_map(&m, &expected), "union keeps the left value for common keys");
            if let Some(a) = &al {
                assert!(same_map(a, &map2()), "a holder of the left map observes the update");
            }
            if let Some(a) = &ar {
                assert!(same_map(a, &right), "a holder of the right map observes the update");
            }
        }
        _ => assert!(false),
    }
}

// quick-tier version of the same contract on the smallest maps that distinguish the two operand
// orders: one entry each, SAME key, different values (left value must win)
macro_rules! union_small_harness {
    ($name:ident, $sl:expr, $sr:expr) => {
        #[kani::proof]
        #[kani::unwind(6)]
        fn $name() {
            union_small_check($sl, $sr);
        }
    };
}
union_small_harness!(hash_union_small_both_shared, true, true);
union_small_harness!(hash_union_small_left_shared, true, false);
union_small_harness!(hash_union_small_right_shared, false, true);
union_small_harness!(hash_union_small_unique, false, false);

fn union_small_check(sl: bool, sr: bool) {
    unsafe {
        UNION_ABSTRACT = true;
        UNION_LOG = None;
    }
    let mut left = HashMap::new();
    left.insert(iv(2), iv(20));
    let mut right = HashMap::new();
    right.insert(iv(2), iv(99));
    let gl = Gc::new(left.clone());
    let gr = Gc::new(right.clone());
    let al = if sl { Some(gl.clone()) } else { None };
    let ar = if sr { Some(gr.clone()) } else { None };
    let mut l = SteelVal::HashMapV(SteelHashMap(gl));
    let mut r = SteelVal::HashMapV(SteelHashMap(gr));
    let res = hm_union(&mut l, &mut r);
    match res {
        Ok(SteelVal::HashMapV(SteelHashMap(m))) => {
            assert!(unsafe { UNION_LOG } == Some((20, 99)), "the LEFT map is the receiver of the left-biased union, the right one its argument");
            assert!(same_map(&m, &left), "union keeps the LEFT value for a common key");
            if let Some(a) = &al {
                assert!(same_map(a, &left), "a holder of the left map does not observe the update");
            }
            if let Some(a) = &ar {
                assert!(same_map(a, &right), "a holder of the right map does not observe the update");
            }
        }
        _ => assert!(false),
    }
}

macro_rules! set_harness {
    ($name:ident, |$arg:ident, $k:ident| $call:expr, |$old:ident, $k2:ident| $expected:expr) => {
        #[kani::proof]
        #[kani::unwind(6)]
        fn $name() {
            fn check(shared: bool, key: isize) {
            let g = Gc::new(set2());
            let alias = if shared { Some(g.clone()) } else { None };
            let mut $arg = SteelVal::HashSetV(SteelHashSet(g));
            let $k = key;
            let r = $call;
            let $old = set2();
            let $k2 = $k;
            let expected: HashSet<SteelVal> = $expected;
            match r {
                Ok(SteelVal::HashSetV(SteelHashSet(res))) => {
                    assert!(same_set(&res, &expected));
                    if let Some(a) = &alias {
                        assert!(same_set(a, &set2()), "another holder of the value observes the update");
                    } else {
                        assert!(matches!($arg, SteelVal::Void));
                    }
                }
                _ => assert!(false),
            }
            }
            check(true, 1);
            check(true, 3);
            check(false, 3);
        }
    };
}
set_harness!(hashset_insert_persistent, |arg, k| hs_insert(&mut arg, iv(k)), |old, k| old.update(iv(k)));
set_harness!(hashset_clear_persistent, |arg, k| hashset_clear(&mut arg), |old, k| HashSet::new());

macro_rules! vec_harness {
    ($name:ident, |$arg:ident, $x:ident| $call:expr, |$old:ident, $x2:ident| $expected:expr) => {
        #[kani::proof]
        #[kani::unwind(6)]
        fn $name() {
            fn check(shared: bool) {
            let g = Gc::new(vec2());
            let alias = if shared { Some(g.clone()) } else { None };
            let mut $arg = SteelVal::VectorV(SteelVector(g));
            let $x: isize = 77;
            let r = $call;
            let mut $old = vec2();
            let $x2 = $x;
            let expected: Vector<SteelVal> = $expected;
            match r {
                Ok(SteelVal::VectorV(SteelVector(res))) => {
                    assert!(*res == expected, "the result is not the functional update of the old contents");
                    if let Some(a) = &alias {
                        assert!(**a == vec2(), "another holder of the vector observes the update");
                    } else {
                        assert!(matches!($arg, SteelVal::Void));
                    }
                }
                _ => assert!(false),
            }
            }
            check(true);
            check(false);
        }
    };
}
vec_harness!(vector_push_persistent, |arg, x| immutable_vector_push(&mut arg, iv(x)), |old, x| {
    old.push_back(iv(x));
    old
});
vec_harness!(vector_push_front_persistent, |arg, x| immutable_vector_push_front(&mut arg, iv(x)), |old, x| {
    old.push_front(iv(x));
    old
});
vec_harness!(vector_rest_persistent, |arg, x| immutable_vector_rest(&mut arg), |old, x| {
    old.pop_front();
    old
});
vec_harness!(vector_set_persistent, |arg, x| immutable_vector_set(&mut arg, 1, iv(x)), |old, x| {
    old.set(1, iv(x));
    old
});
/// take / drop with a count below, at and beyond the length: same answer whether or not the vector
/// is shared, never a panic
fn take_drop_check(shared: bool, n: usize, take: bool) {
    let g = Gc::new(vec2());
    let alias = if shared { Some(g.clone()) } else { None };
    let mut arg = SteelVal::VectorV(SteelVector(g));
    let r = if take { immutable_vector_take(&mut arg, n) } else { immutable_vector_drop(&mut arg, n) };
    let m = if n > 2 { 2 } else { n };
    let expected: Vec<SteelVal> = if take { vec2().e[..m].to_vec() } else { vec2().e[m..].to_vec() };
    match r {
        Ok(SteelVal::VectorV(SteelVector(res))) => {
            assert!(res.e == expected, "the result depends on whether another holder exists");
            if let Some(a) = &alias {
                assert!(**a == vec2(), "another holder of the vector observes the update");
            }
        }
        _ => assert!(false),
    }
}

#[kani::proof]
#[kani::unwind(6)]
fn vector_take_persistent() {
    take_drop_check(true, 1, true);
    take_drop_check(false, 1, true);
    take_drop_check(true, 2, true);
    take_drop_check(false, 3, true);
    take_drop_check(true, 3, true);
}

#[kani::proof]
#[kani::unwind(6)]
fn vector_drop_persistent() {
    take_drop_check(true, 1, false);
    take_drop_check(false, 1, false);
    take_drop_check(true, 3, false);
    take_drop_check(false, 3, false);
}

#[kani::proof]
#[kani::unwind(8)]
fn string_push_persistent() {
    string_push_check(true);
    string_push_check(false);
}

fn string_push_check(shared: bool) {
    let g = Gc::new(String::from("ab"));
    let alias = if shared { Some(g.clone()) } else { None };
    let mut arg = SteelVal::StringV(SteelString(g));
    let r = string_push(&mut arg, SteelVal::CharV('c'));
    match r {
        Ok(SteelVal::StringV(s)) => {
            assert!(s.as_str().len() == 3 && s.as_str().as_bytes()[2] == b'c' && s.as_str().as_bytes()[0] == b'a');
            if let Some(a) = &alias {
                assert!(a.len() == 2, "another holder of the string observes the push");
            }
        }
        _ => assert!(false),
    }
}

#[kani::proof]
#[kani::unwind(8)]
fn uninterned_symbol_persistent() {
    uninterned_check(true);
    uninterned_check(false);
}

fn uninterned_check(shared: bool) {
    let g = Gc::new(String::from("ab"));
    let alias = if shared { Some(g.clone()) } else { None };
    let r = string_to_uninterned_symbol(SteelString(g));
    match r {
        SteelVal::SymbolV(s) => {
            assert!(s.as_str().len() == 2);
            if let Some(a) = &alias {
                // an uninterned symbol is a fresh object: it must not share storage with a live string
                assert!(!Gc::ptr_eq(a, &s.0));
            }
        }
        _ => assert!(false),
    }
}

// ------------------------------------------------------------------ optional (start, end) bounds of vector primitives (C07)
fn rest_of(n: usize, a: isize, b: isize) -> RestArgsIter<'static, isize> {
    RestArgsIter { items: [Some(Ok(a)), Some(Ok(b)), Some(Ok(0))], pos: 0, n, _p: core::marker::PhantomData }
}

fn bounds_spec(r: Result<(usize, usize)>, n: usize, a: isize, b: isize, len: usize) {
    if n > 2 {
        assert!(matches!(r, Err(e) if e.kind == ErrorKind::ArityMismatch));
        return;
    }
    let start = if n >= 1 { a } else { 0 };
    let end = if n >= 2 { b } else { len as isize };
    let bad = start < 0 || end < 0 || end as usize > len || start > end;
    match r {
        Ok((s, e)) => {
            assert!(!bad, "an out-of-range (start, end) pair was accepted: the caller slices with it");
            assert!(s as isize == start && e as isize == end && s <= e && e <= len);
        }
        Err(e) => assert!(bad && e.kind == ErrorKind::ContractViolation),
    }
}

#[kani::proof]
#[kani::unwind(6)]
fn bounds_mut_contract() {
    let arr = [SteelVal::Void, SteelVal::Void, SteelVal::Void, SteelVal::Void];
    let len: usize = kani::any();
    kani::assume(len <= 4);
    let n: usize = kani::any();
    kani::assume(n <= 3);
    let a: isize = kani::any();
    let b: isize = kani::any();
    let r = bounds_mut(rest_of(n, a, b), "vector-copy!", 4, &arr[..len]);
    bounds_spec(r, n, a, b, len);
}

#[kani::proof]
#[kani::unwind(6)]
fn bounds_contract() {
    let shorter: bool = kani::any();
    let mut v = vec2();
    if shorter {
        v.pop_back();
    }
    let len = v.len();
    let n: usize = kani::any();
    kani::assume(n <= 3);
    let a: isize = kani::any();
    let b: isize = kani::any();
    let r = bounds(rest_of(n, a, b), "vector-copy", 4, &v);
    bounds_spec(r, n, a, b, len);
}

/// (immutable-vector-set v i x) with ANY index: an index inside the vector updates exactly that element,
/// an index at or beyond the length is an error value (never a panic of the host), shared or not
#[kani::proof]
#[kani::unwind(6)]
fn vector_set_index_total() {
    let shared: bool = kani::any();
    let i: usize = kani::any();
    let g = Gc::new(vec2());
    let alias = if shared { Some(g.clone()) } else { None };
    let mut arg = SteelVal::VectorV(SteelVector(g));
    let r = immutable_vector_set(&mut arg, i, iv(77));
    match r {
        Ok(SteelVal::VectorV(SteelVector(res))) => {
            assert!(i < 2, "an index beyond the vector was accepted");
            let mut want = vec2();
            want.set(i, iv(77));
            assert!(*res == want);
        }
        Ok(_) => assert!(false),
        Err(_) => assert!(i >= 2, "a valid index was rejected"),
    }
    if let Some(a) = &alias {
        assert!(**a == vec2(), "another holder of the vector observes the update");
    }
}
