// Contract harnesses for the allocation-time collection policy (child of x_heap; unit `heapo`, C04)
#![allow(unused_imports, dead_code, static_mut_refs)]
use super::*;
use crate::prelude::*;

fn heap() -> Heap {
    unsafe {
        LOG = GhostLog { ev: [None; 24], n: 0 };
        FILL_I = 0;
        MARK_ROOT_VALUE = None;
        MARK_ROOT_VECTOR = [None; 4];
        MARK_ROOT_VECTOR_LEN = 0;
        ALLOCATED_VALUE = None;
        ALLOCATED_VEC = [None; 4];
        ALLOCATED_VEC_LEN = 0;
    }
    let ml: usize = kani::any();
    let vl: usize = kani::any();
    kani::assume(ml <= 1 << 40 && vl <= 1 << 40);
    Heap {
        memory_free_list: FreeList { id: 0, elements: GhostElems(ml), alloc_count: kani::any(), grow_count: kani::any(), should_run_weak: kani::any(), _t: core::marker::PhantomData },
        vector_free_list: FreeList { id: 1, elements: GhostElems(vl), alloc_count: kani::any(), grow_count: kani::any(), should_run_weak: kani::any(), _t: core::marker::PhantomData },
        stats_to_return: MarkAndSweepStats { object_count: 0, memory_reached_count: kani::any(), vector_reached_count: kani::any() },
    }
}

fn set_fill(f: [f64; 8]) {
    unsafe {
        FILL = f;
    }
}

fn any_fill() -> [f64; 8] {
    let f: [f64; 8] = kani::any();
    let mut i = 0;
    while i < 8 {
        kani::assume(f[i] >= 0.0 && f[i] <= 1.0);
        i += 1;
    }
    f
}

/// common part: order of the steps around a full mark on list `id`
unsafe fn check_mark_protocol(h: &Heap, id: u8) {
    let marks = LOG.count(Ev::Mark);
    assert!(marks <= 1);
    if marks == 1 {
        let m = LOG.pos(Ev::Mark).unwrap();
        let r0 = LOG.pos(Ev::Reset(0));
        let r1 = LOG.pos(Ev::Reset(1));
        assert!(r0.is_some() && r1.is_some(), "both heaps' marks must be reset before marking");
        assert!(r0.unwrap() < m && r1.unwrap() < m);
        // the free counts are recomputed from what the marker reached
        assert!(h.memory_free_list.alloc_count == h.memory_free_list.elements.len().saturating_sub(h.stats_to_return.memory_reached_count));
        assert!(h.vector_free_list.alloc_count == h.vector_free_list.elements.len().saturating_sub(h.stats_to_return.vector_reached_count));
        // room is made afterwards
        let g = LOG.pos(Ev::Grow(id));
        let c = LOG.pos(Ev::Compact(id));
        assert!(g.is_some() != c.is_some());
        assert!(g.or(c).unwrap() > m);
        // the list that was collected is compacted once IT has grown RESET_LIMIT times (otherwise
        // it doubles at every full collection without bound), and no other list is touched
        let own_grow_count = if id == 0 { h.memory_free_list.grow_count } else { h.vector_free_list.grow_count };
        assert!(c.is_some() == (own_grow_count > RESET_LIMIT), "compaction decided by the wrong counter");
        let other = 1 - id;
        assert!(LOG.pos(Ev::Grow(other)).is_none() && LOG.pos(Ev::Compact(other)).is_none());
        // the caller's root sets reached the marker
        assert!(MARK_ROOTS_LEN == 2 && MARK_GLOBALS_LEN == 1 && MARK_TLS_LEN == 3);
    }
    // whether list `id` is collected is decided by its OWN fill level: a vector heap that fills up must be
    // collected even if the box heap is almost empty (and the other way round)
    assert!(LOG.count(Ev::Fill(1 - id)) == 0, "the collection of one heap is triggered by the fill level of the other");
    assert!(LOG.count(Ev::Fill(id)) == 1);
    // exactly one allocation, last
    assert!(LOG.count(Ev::Alloc(id)) == 1 && LOG.pos(Ev::Alloc(id)) == Some(LOG.n - 1));
}

const ROOTS: [SteelVal; 2] = [SteelVal::Void, SteelVal::Void];
const GLOBALS: [SteelVal; 1] = [SteelVal::Void];
const TLS: [SteelVal; 3] = [SteelVal::Void, SteelVal::Void, SteelVal::Void];

#[kani::proof]
#[kani::unwind(18)]
fn allocate_roots_pending_value() {
    let mut h = heap();
    set_fill(any_fill());
    let v: isize = kani::any();
    let _ = h.allocate(SteelVal::IntV(v), &ROOTS, core::iter::empty(), &GLOBALS, &TLS, &mut Synchronizer);
    unsafe {
        check_mark_protocol(&h, 0);
        if LOG.count(Ev::Mark) == 1 {
            assert!(MARK_ROOT_VALUE == Some(SteelVal::IntV(v)), "the value being allocated is not a root of the collection it triggers");
        }
        assert!(ALLOCATED_VALUE == Some(SteelVal::IntV(v)));
        kani::cover!(LOG.count(Ev::Mark) == 1);
    }
}

#[kani::proof]
#[kani::unwind(18)]
fn allocate_vector_roots_pending_contents() {
    let mut h = heap();
    set_fill(any_fill());
    let a: isize = kani::any();
    let b: isize = kani::any();
    let _ = h.allocate_vector(vec![SteelVal::IntV(a), SteelVal::IntV(b)], &ROOTS, core::iter::empty(), &GLOBALS, &TLS, &mut Synchronizer);
    unsafe {
        check_mark_protocol(&h, 1);
        if LOG.count(Ev::Mark) == 1 {
            assert!(MARK_ROOT_VECTOR_LEN == 2 && MARK_ROOT_VECTOR[0] == Some(a) && MARK_ROOT_VECTOR[1] == Some(b),
                    "the contents being allocated are not roots of the collection they trigger");
        }
        assert!(ALLOCATED_VEC_LEN == 2 && ALLOCATED_VEC[0] == Some(a) && ALLOCATED_VEC[1] == Some(b));
        kani::cover!(LOG.count(Ev::Mark) == 1);
    }
}

#[kani::proof]
#[kani::unwind(18)]
fn allocate_vector_iter_roots_pending_contents() {
    let mut h = heap();
    set_fill(any_fill());
    let a: isize = kani::any();
    // (make-vector 2 a): the fill value only lives in the iterator
    let it = core::iter::repeat(SteelVal::IntV(a)).take(2);
    let _ = h.allocate_vector_iter(it, &ROOTS, core::iter::empty(), &GLOBALS, &TLS, &mut Synchronizer);
    unsafe {
        check_mark_protocol(&h, 1);
        if LOG.count(Ev::Mark) == 1 {
            assert!(MARK_ROOT_VECTOR_LEN == 2 && MARK_ROOT_VECTOR[0] == Some(a) && MARK_ROOT_VECTOR[1] == Some(a),
                    "the contents being allocated are not roots of the collection they trigger");
        }
        assert!(ALLOCATED_VEC_LEN == 2 && ALLOCATED_VEC[0] == Some(a));
        kani::cover!(LOG.count(Ev::Mark) == 1);
    }
}
