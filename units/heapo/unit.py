"""Unit `heapo` (C04, engine E2): the collection policy run at allocation time (Heap::allocate*)."""
import os
import shutil

from vlib.common import REPO, VERIF, AnchorLost, read, write, sha256, scan_assumptions
from vlib.extract import Extractor
from vlib import kani

NAME = "heapo"
CLOSED = "crates/steel-core/src/values/closed.rs"
FNS = ["allocate", "value_collection", "allocate_vector", "vector_collection", "allocate_vector_iter"]


def build(scratch):
    ex = Extractor()
    parts = [ex.item(CLOSED, "const", "RESET_LIMIT")] if "const RESET_LIMIT" in ex.src(CLOSED) else []
    methods = [ex.fn_in_impls(CLOSED, r"impl Heap\b", f) for f in FNS]
    text = "\n\n".join(parts) + "\n\nimpl Heap {\n    " + "\n\n    ".join(methods) + "\n}\n"
    crate = os.path.join(scratch, "heapox")
    os.makedirs(os.path.join(crate, "src"))
    shutil.copy(os.path.join(REPO, "Cargo.lock"), os.path.join(crate, "Cargo.lock"))
    write(os.path.join(crate, "Cargo.toml"), """[package]
name = "heapox"
version = "0.0.0"
edition = "2021"

[features]
default = ["sync"]
sync = []

[dependencies]

[workspace]

[lints.rust]
unexpected_cfgs = { level = "allow", check-cfg = ['cfg(kani)'] }
""")
    prelude = read(os.path.join(VERIF, "units/heapo/prelude.rs"))
    harness = read(os.path.join(VERIF, "units/heapo/harness.rs"))
    write(os.path.join(crate, "src/prelude.rs"), prelude)
    write(os.path.join(crate, "src/x_heap.rs"), "#![allow(dead_code, unused_imports, unused_variables, unused_mut)]\nuse crate::prelude::*;\nuse crate::prelude::log;\n\n" + text
          + "\n#[cfg(kani)]\n#[path = \"harness.rs\"]\nmod harness;\n")
    write(os.path.join(crate, "src/harness.rs"), harness)
    write(os.path.join(crate, "src/lib.rs"), "#![allow(dead_code, unused_imports, unused_macros, static_mut_refs)]\npub mod prelude;\npub mod x_heap;\n")
    meta = {"unit": NAME, "engine": "E2: verbatim item extraction into a mini crate + Kani", "items": ex.items,
            "prelude": "units/heapo/prelude.rs", "prelude_sha256": sha256(prelude), "harness_sha256": sha256(harness),
            "extractor_edits": "D1; D2 (feature `biased` off in the mini crate: the steel_rc::QueueHandle::run_explicit_merge() call is compiled out; `sync` on); D3",
            "assumption_scan": scan_assumptions(harness, "units/heapo/harness.rs") + scan_assumptions(prelude, "units/heapo/prelude.rs")}
    return crate, meta


C = ("for every sequence of fill levels: if the allocation triggers a full mark, the marker is given the value(s) BEING allocated as roots "
     "(a pending allocation argument is a root), together with the caller's stack / globals / thread-local slices; both free lists' marks are "
     "reset before the mark; the free counts are recomputed as len - reached afterwards; the list then grows or compacts; exactly one "
     "allocation of exactly the given contents follows")
OBS = {
    "allocate_roots_pending_value": dict(kind="proof", functions=["Heap::allocate", "Heap::value_collection"], contract="box allocation: " + C),
    "allocate_vector_roots_pending_contents": dict(kind="bounded", bound="vectors of 2 elements", functions=["Heap::allocate_vector", "Heap::vector_collection"], contract="vector allocation: " + C),
    "allocate_vector_iter_roots_pending_contents": dict(kind="bounded", bound="iterators of 2 elements", functions=["Heap::allocate_vector_iter"], contract="vector allocation from an iterator (make-vector): " + C),
}


def run_for(scratch, tier, prop):
    return run_unit(scratch, tier)


def run_unit(scratch, tier):
    crate, meta = build(scratch)
    p = os.path.join(crate, "src/harness.rs")
    write(p, read(p) + "\n#[kani::proof]\n#[kani::unwind(6)]\nfn canary_must_fail() {\n    let mut h = heap();\n    set_fill([0.0; 8]);\n    let _ = h.allocate(SteelVal::IntV(1), &[], core::iter::empty(), &[], &[], &mut Synchronizer);\n    assert!(unsafe { LOG.count(Ev::Alloc(0)) } == 0, \"canary: must be reported as failing\");\n}\n")
    specs = [dict(name=n, kind=o["kind"], contract=o["contract"], functions=o["functions"], bound=o.get("bound")) for n, o in OBS.items()]
    specs.append(dict(name="canary_must_fail", kind="canary", contract="assert that must fail"))
    obs, cmd, out = kani.run_harnesses(crate, specs, NAME, "heapo", jobs=6, timeout=3000, harness_timeout="10m",
                                       extra_flags=["--no-assertion-reach-checks", "--no-overflow-checks"])
    kani.attach_counterexamples(obs, crate, "heapo", out)
    return obs, meta, cmd
