// Environment prelude of unit `heapo` (C04, engine E2): the allocation-time collection policy of
// `Heap` (values/closed.rs). HAND-WRITTEN AND TRUSTED. The two free lists and the marker are
// GHOST RECORDERS here (their own behaviour is unit `heap`): they log the calls `Heap::allocate*`
// makes, in order, with the arguments that matter for rooting. `percent_full()` answers with
// arbitrary (symbolic) fill levels, so every branch of the policy is explored.
#![allow(dead_code, unused_imports, unused_macros, unused_variables)]
use core::cell::Cell;

pub mod log {
    macro_rules! debug {
        ($($t:tt)*) => {};
    }
    pub(crate) use debug;
}

#[derive(Clone, Debug, PartialEq)]
pub enum SteelVal {
    Void,
    IntV(isize),
}
pub struct ByteCodeLambda;
pub struct Synchronizer;

#[derive(Clone, Copy, PartialEq, Debug)]
pub enum Ev {
    Weak(u8),
    Slots(u8),
    Reset(u8),
    Mark,
    Grow(u8),
    Compact(u8),
    Alloc(u8),
    /// the fill level of list `id` was consulted
    Fill(u8),
}

pub struct GhostLog {
    pub ev: [Option<Ev>; 24],
    pub n: usize,
}
impl GhostLog {
    pub fn push(&mut self, e: Ev) {
        if self.n < 24 {
            self.ev[self.n] = Some(e);
        }
        self.n += 1;
    }
    pub fn pos(&self, e: Ev) -> Option<usize> {
        let mut i = 0;
        while i < 24 && i < self.n {
            if self.ev[i] == Some(e) {
                return Some(i);
            }
            i += 1;
        }
        None
    }
    pub fn count(&self, e: Ev) -> usize {
        let mut i = 0;
        let mut c = 0;
        while i < 24 && i < self.n {
            if self.ev[i] == Some(e) {
                c += 1;
            }
            i += 1;
        }
        c
    }
}
pub static mut LOG: GhostLog = GhostLog { ev: [None; 24], n: 0 };
pub static mut FILL: [f64; 8] = [0.0; 8];
pub static mut FILL_I: usize = 0;
// what the marker was given
pub static mut MARK_ROOT_VALUE: Option<SteelVal> = None;
pub static mut MARK_ROOT_VECTOR: [Option<isize>; 4] = [None; 4];
pub static mut MARK_ROOT_VECTOR_LEN: usize = 0;
pub static mut MARK_ROOTS_LEN: usize = 0;
pub static mut MARK_GLOBALS_LEN: usize = 0;
pub static mut MARK_TLS_LEN: usize = 0;
pub static mut ALLOCATED_VALUE: Option<SteelVal> = None;
pub static mut ALLOCATED_VEC: [Option<isize>; 4] = [None; 4];
pub static mut ALLOCATED_VEC_LEN: usize = 0;

pub struct GhostElems(pub usize);
impl GhostElems {
    pub fn len(&self) -> usize {
        self.0
    }
}

pub struct HeapRef<T>(pub core::marker::PhantomData<T>);

/// recorder standing in for FreeList<T>; `id` 0 = memory (boxes), 1 = vectors
pub struct FreeList<T> {
    pub id: u8,
    pub elements: GhostElems,
    pub alloc_count: usize,
    pub grow_count: usize,
    pub should_run_weak: bool,
    pub _t: core::marker::PhantomData<T>,
}
impl<T> FreeList<T> {
    pub fn percent_full(&self) -> f64 {
        unsafe {
            if LOG.count(Ev::Fill(self.id)) == 0 {
                LOG.push(Ev::Fill(self.id));
            }
            let v = FILL[FILL_I % 8];
            FILL_I += 1;
            v
        }
    }
    pub fn weak_collection(&mut self) -> usize {
        unsafe { LOG.push(Ev::Weak(self.id)) };
        0
    }
    pub fn calculate_slots_reachable(&mut self) {
        unsafe { LOG.push(Ev::Slots(self.id)) };
    }
    pub fn mark_all_unreachable(&mut self) {
        unsafe { LOG.push(Ev::Reset(self.id)) };
    }
    pub fn grow(&mut self) {
        unsafe { LOG.push(Ev::Grow(self.id)) };
    }
    pub fn compact(&mut self) {
        unsafe { LOG.push(Ev::Compact(self.id)) };
    }
}
impl FreeList<SteelVal> {
    pub fn allocate(&mut self, v: SteelVal) -> HeapRef<SteelVal> {
        unsafe {
            LOG.push(Ev::Alloc(self.id));
            ALLOCATED_VALUE = Some(v);
        }
        HeapRef(core::marker::PhantomData)
    }
}
impl FreeList<Vec<SteelVal>> {
    pub fn allocate(&mut self, v: Vec<SteelVal>) -> HeapRef<Vec<SteelVal>> {
        self.allocate_vec(v.into_iter())
    }
    pub fn allocate_vec(&mut self, it: impl Iterator<Item = SteelVal>) -> HeapRef<Vec<SteelVal>> {
        unsafe {
            LOG.push(Ev::Alloc(self.id));
            ALLOCATED_VEC_LEN = 0;
            for x in it {
                if ALLOCATED_VEC_LEN < 4 {
                    ALLOCATED_VEC[ALLOCATED_VEC_LEN] = if let SteelVal::IntV(i) = x { Some(i) } else { None };
                }
                ALLOCATED_VEC_LEN += 1;
            }
        }
        HeapRef(core::marker::PhantomData)
    }
}

#[derive(Debug, Clone, Default)]
pub struct MarkAndSweepStats {
    pub object_count: usize,
    pub memory_reached_count: usize,
    pub vector_reached_count: usize,
}

pub struct Heap {
    pub memory_free_list: FreeList<SteelVal>,
    pub vector_free_list: FreeList<Vec<SteelVal>>,
    pub stats_to_return: MarkAndSweepStats,
}
impl Heap {
    /// the marker: records what it was given as roots (its traversal is unit `heap`)
    pub fn mark_and_sweep_new<'a>(
        &mut self,
        root_value: Option<SteelVal>,
        root_vector: impl Iterator<Item = SteelVal>,
        roots: &'a [SteelVal],
        _live_functions: impl Iterator<Item = &'a ByteCodeLambda>,
        globals: &'a [SteelVal],
        tls: &'a [SteelVal],
        _synchronizer: &mut Synchronizer,
    ) -> MarkAndSweepStats {
        unsafe {
            LOG.push(Ev::Mark);
            MARK_ROOT_VALUE = root_value;
            MARK_ROOT_VECTOR_LEN = 0;
            for x in root_vector {
                if MARK_ROOT_VECTOR_LEN < 4 {
                    MARK_ROOT_VECTOR[MARK_ROOT_VECTOR_LEN] = if let SteelVal::IntV(i) = x { Some(i) } else { None };
                }
                MARK_ROOT_VECTOR_LEN += 1;
            }
            MARK_ROOTS_LEN = roots.len();
            MARK_GLOBALS_LEN = globals.len();
            MARK_TLS_LEN = tls.len();
        }
        self.stats_to_return.clone()
    }
}
