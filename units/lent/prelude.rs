// Unit `lent` prelude (TRUSTED, hand written): the types the verbatim text of the lent-reference code in
// gc.rs (`unsafe_erased_pointers`: BorrowedObject, the use-time check as_mut_ref_from_ref, the borrow-flag
// accessors) mentions. std Arc / Weak / AtomicBool and core::any are used as they are.
//  * RwLock / Mutex (parking_lot in the real crate) as RefCell-backed cells with the same guard API
//  * SteelVal reduced to the reference kind + leaves; error macros keep the ErrorKind, drop the message
#![allow(dead_code, unused_variables, unused_imports, unused_macros)]
pub use core::any::Any;
pub use std::sync::atomic::AtomicBool;
pub use std::sync::Arc;
pub use std::sync::Arc as StandardShared;
pub use std::sync::Weak as WeakShared;
use core::cell::{Ref, RefCell, RefMut};

pub struct RwLock<T>(RefCell<T>);
impl<T> RwLock<T> {
    pub fn new(v: T) -> Self {
        RwLock(RefCell::new(v))
    }
    pub fn read(&self) -> Ref<'_, T> {
        self.0.borrow()
    }
    pub fn write(&self) -> RefMut<'_, T> {
        self.0.borrow_mut()
    }
}
pub struct Mutex<T>(RefCell<T>);
impl<T> Mutex<T> {
    pub fn new(v: T) -> Self {
        Mutex(RefCell::new(v))
    }
    pub fn lock(&self) -> RefMut<'_, T> {
        self.0.borrow_mut()
    }
}
pub type SharedMut<T> = Arc<RwLock<T>>;
pub type WeakSharedMut<T> = std::sync::Weak<RwLock<T>>;

#[derive(Clone, Copy, Debug, PartialEq, Eq)]
pub enum ErrorKind {
    ConversionError,
    Generic,
    TypeMismatch,
}
#[derive(Clone, Copy, Debug, PartialEq, Eq)]
pub struct SteelErr {
    pub kind: ErrorKind,
}
pub struct Msg;
impl SteelErr {
    pub fn new(kind: ErrorKind, _m: Msg) -> Self {
        SteelErr { kind }
    }
}
pub type Result<T> = core::result::Result<T, SteelErr>;
macro_rules! stop {
    ($type:ident => $($rest:tt)+) => {
        return Err($crate::prelude::SteelErr { kind: $crate::prelude::ErrorKind::$type })
    };
}
macro_rules! throw {
    ($type:ident => $($rest:tt)+) => {
        || $crate::prelude::SteelErr { kind: $crate::prelude::ErrorKind::$type }
    };
}
macro_rules! format {
    ($($rest:tt)*) => {
        $crate::prelude::Msg
    };
}
pub(crate) use {format, stop, throw};

pub trait CustomReference {
    fn walk(&self) {}
}
pub trait ReferenceCustomType {
    fn as_any_ref(&self) -> &dyn Any;
}
impl<T: CustomReference + 'static> ReferenceCustomType for T {
    fn as_any_ref(&self) -> &dyn Any {
        self as &dyn Any
    }
}
pub struct OpaqueReference<'a> {
    pub inner: StandardShared<dyn ReferenceCustomType + 'a>,
}
pub struct Gc<T>(pub *const T);
impl<T> Gc<T> {
    pub fn new(v: T) -> Self {
        Gc(Box::leak(Box::new(v)) as *const T)
    }
}
impl<T> core::ops::Deref for Gc<T> {
    type Target = T;
    fn deref(&self) -> &T {
        unsafe { &*self.0 }
    }
}
pub enum SteelVal {
    Reference(Gc<OpaqueReference<'static>>),
    IntV(isize),
    Void,
}
pub struct TemporaryMutableView<T> {
    pub view: SharedMut<*mut T>,
}
pub type StandardSharedMut<T> = Arc<RwLock<T>>;
pub trait AsRefSteelValFromRef: Sized {
    fn as_ref_from_ref(val: &SteelVal) -> Result<crate::x_gc::TemporaryReadonlyView<Self>>;
}
pub trait AsRefMutSteelValFromRef: Sized {
    fn as_mut_ref_from_ref(val: &SteelVal) -> Result<TemporaryMutableView<Self>>;
}
pub mod rvals {
    pub use super::Result;
}
