// Contract harnesses for lent (borrowed) host references (unit `lent`). Child module of x_gc.rs.
use super::*;
use crate::prelude::*;
use core::mem::ManuallyDrop;
use std::sync::atomic::Ordering;

pub struct Host {
    pub n: u32,
}
impl CustomReference for Host {}
pub struct Other;
impl CustomReference for Other {}

/// what `run_with_reference` does: the host keeps the only strong handle on the pointer cell for the duration
/// of the call; the script gets a value that holds a weak one
fn lend(host: &mut Host) -> (ManuallyDrop<SharedMut<*mut Host>>, SteelVal) {
    let strong: SharedMut<*mut Host> = Arc::new(RwLock::new(host as *mut Host));
    let obj = BorrowedObject::new(Arc::downgrade(&strong));
    let v = SteelVal::Reference(Gc::new(OpaqueReference { inner: Arc::new(obj) }));
    (ManuallyDrop::new(strong), v)
}

fn kind_of<T>(r: &Result<T>) -> Option<ErrorKind> {
    match r {
        Ok(_) => None,
        Err(e) => Some(e.kind),
    }
}

#[kani::proof]
#[kani::unwind(4)]
fn lent_reference_dies_with_the_call() {
    let mut host = Host { n: 5 };
    let (mut strong, v) = lend(&mut host);
    // during the call: usable, and it designates the host object
    {
        let r = <Host as AsRefMutSteelValFromRef>::as_mut_ref_from_ref(&v);
        match &r {
            Ok(view) => assert!(unsafe { (**view.view.read()).n } == 5),
            Err(_) => assert!(false, "a lent reference must be usable during the call"),
        }
        // the temporary view (a strong handle on the pointer cell) is released when the host function returns
        drop(r);
    }
    // a value of another registered type, or not a reference at all, is a conversion error
    assert!(kind_of(&<Other as AsRefMutSteelValFromRef>::as_mut_ref_from_ref(&v)) == Some(ErrorKind::ConversionError));
    assert!(kind_of(&<Host as AsRefMutSteelValFromRef>::as_mut_ref_from_ref(&SteelVal::IntV(3))) == Some(ErrorKind::ConversionError));
    // the call ends: the host drops its handle; the script may have stored `v` - every later use is an error value
    unsafe { ManuallyDrop::drop(&mut strong) };
    assert!(kind_of(&<Host as AsRefMutSteelValFromRef>::as_mut_ref_from_ref(&v)) == Some(ErrorKind::Generic), "a lent reference is still usable after the call ended");
}

#[kani::proof]
#[kani::unwind(4)]
fn readonly_lent_reference_dies_with_the_call() {
    let host = Host { n: 9 };
    let slim: bool = kani::any();
    let count: Arc<Mutex<BorrowFlag>> = Arc::new(Mutex::new(1));
    // the two representations of a shared lent reference
    let strong_cell: ManuallyDrop<StandardSharedMut<*const Host>> = ManuallyDrop::new(Arc::new(RwLock::new(&host as *const Host)));
    let strong_slim: ManuallyDrop<Arc<Host>> = ManuallyDrop::new(Arc::new(Host { n: 9 }));
    let inner: Arc<dyn ReferenceCustomType> = if slim {
        Arc::new(ReadOnlyTemporary { ptr: Arc::downgrade(&strong_slim) })
    } else {
        Arc::new(ReadOnlyBorrowedObject::new(Arc::downgrade(&strong_cell), Arc::clone(&count)))
    };
    let v = SteelVal::Reference(Gc::new(OpaqueReference { inner }));
    {
        let r = <Host as AsRefSteelValFromRef>::as_ref_from_ref(&v);
        match &r {
            Ok(view) => assert!(view.as_ro().n == 9, "the script reads another object than the one lent"),
            Err(_) => assert!(false, "a lent reference must be usable during the call"),
        }
        drop(r);
    }
    assert!(kind_of(&<Other as AsRefSteelValFromRef>::as_ref_from_ref(&v)) == Some(ErrorKind::ConversionError));
    assert!(kind_of(&<Host as AsRefSteelValFromRef>::as_ref_from_ref(&SteelVal::Void)) == Some(ErrorKind::ConversionError));
    // the call ends
    let (mut a, mut b) = (strong_cell, strong_slim);
    unsafe {
        ManuallyDrop::drop(&mut a);
        ManuallyDrop::drop(&mut b);
    }
    assert!(kind_of(&<Host as AsRefSteelValFromRef>::as_ref_from_ref(&v)) == Some(ErrorKind::Generic), "a lent reference is still usable after the call ended");
}

#[kani::proof]
#[kani::unwind(4)]
fn parent_is_frozen_while_a_child_reference_lives() {
    let mut host = Host { n: 5 };
    let (_strong, v) = lend(&mut host);
    // the wrapper of a host function returning a reference INTO its &mut self argument sets the flag it obtains
    // here for as long as the child reference is alive
    let flag = match v.get_borrow_flag_if_borrowed_object::<Host>() {
        Ok(f) => f,
        Err(_) => {
            assert!(false);
            return;
        }
    };
    flag.store(true, Ordering::SeqCst);
    assert!(kind_of(&<Host as AsRefMutSteelValFromRef>::as_mut_ref_from_ref(&v)) == Some(ErrorKind::Generic),
            "the parent can be used mutably while a reference into it is alive (dangling host reference)");
    flag.store(false, Ordering::SeqCst);
    {
        let r = <Host as AsRefMutSteelValFromRef>::as_mut_ref_from_ref(&v);
        assert!(r.is_ok(), "the parent stays frozen after the child reference is gone");
        core::mem::forget(r);
    }
    // shared (read) borrows in flight also exclude a mutable use
    let count = match v.get_borrow_count_if_borrowed_object::<Host>() {
        Ok(c) => c,
        Err(_) => {
            assert!(false);
            return;
        }
    };
    increment_borrow_flag(&count);
    assert!(kind_of(&<Host as AsRefMutSteelValFromRef>::as_mut_ref_from_ref(&v)) == Some(ErrorKind::Generic));
    // wrong type / not a reference
    assert!(kind_of(&v.get_borrow_flag_if_borrowed_object::<Other>()) == Some(ErrorKind::ConversionError));
    assert!(kind_of(&SteelVal::Void.get_borrow_flag_if_borrowed_object::<Host>()) == Some(ErrorKind::ConversionError));
    core::mem::forget(flag);
    core::mem::forget(count);
}
