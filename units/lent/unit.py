"""Unit `lent` (C20, engine E2): host references lent to a script for the duration of a call (gc.rs unsafe_erased_pointers)."""
import os
import shutil

from vlib.common import REPO, VERIF, read, write, sha256, scan_assumptions
from vlib.extract import Extractor
from vlib import kani

NAME = "lent"
GC = "crates/steel-core/src/gc.rs"


def build(scratch):
    ex = Extractor()
    parts = [ex.item(GC, "type", "BorrowFlag"), ex.item(GC, "const", "UNUSED"),
             ex.item(GC, "struct", "BorrowedObject"),
             ex.impl_block(GC, r"impl<T> Drop for BorrowedObject<T>"),
             ex.fn(GC, "increment_borrow_flag")]
    s, ob, end = ex.impl_range(GC, r"impl<T> BorrowedObject<T> \{")
    parts.append("impl<T> BorrowedObject<T> {\n    " + ex.fn(GC, "new", within=(ob, end)) + "\n\n    " + ex.fn(GC, "with_parent_flag", within=(ob, end)) + "\n}")
    parts.append("impl SteelVal {\n    " + ex.fn(GC, "get_borrow_flag_if_borrowed_object") + "\n\n    " + ex.fn(GC, "get_borrow_count_if_borrowed_object") + "\n}")
    parts.append(ex.impl_block(GC, r"impl<T> CustomReference for BorrowedObject<T>"))
    parts.append("impl<T: ReferenceCustomType + 'static> AsRefMutSteelValFromRef for T {\n    " + ex.fn(GC, "as_mut_ref_from_ref") + "\n}")
    ex.items[-1]["edits"] = ["D1", "D3"]
    # read-only lent references
    parts.append(ex.item(GC, "struct", "ReadOnlyTemporary"))
    parts.append(ex.impl_block(GC, r"impl<T> CustomReference for ReadOnlyTemporary<T>"))
    parts.append(ex.item(GC, "struct", "ReadOnlyBorrowedObject"))
    parts.append(ex.impl_block(GC, r"impl<T> CustomReference for ReadOnlyBorrowedObject<T>"))
    parts.append(ex.impl_block(GC, r"impl<T> ReadOnlyBorrowedObject<T>"))
    parts.append(ex.impl_block(GC, r"impl<T> Drop for ReadOnlyBorrowedObject<T>"))
    parts.append(ex.item(GC, "enum", "TemporaryReadonlyView"))
    parts.append(ex.impl_block(GC, r"impl<T> TemporaryReadonlyView<T>"))
    parts.append("impl<T: ReferenceCustomType + 'static> AsRefSteelValFromRef for T {\n    " + ex.fn(GC, "as_ref_from_ref") + "\n}")
    ex.items[-1]["edits"] = ["D1", "D3"]
    text = "\n\n".join(parts) + "\n"
    crate = os.path.join(scratch, "lentx")
    os.makedirs(os.path.join(crate, "src"))
    shutil.copy(os.path.join(REPO, "Cargo.lock"), os.path.join(crate, "Cargo.lock"))
    write(os.path.join(crate, "Cargo.toml"), "[package]\nname = \"lentx\"\nversion = \"0.0.0\"\nedition = \"2021\"\n\n[features]\ndefault = [\"sync\"]\nsync = []\n\n[dependencies]\n\n[workspace]\n\n[lints.rust]\nunexpected_cfgs = { level = \"allow\", check-cfg = ['cfg(kani)'] }\n")
    prelude = read(os.path.join(VERIF, "units/lent/prelude.rs"))
    harness = read(os.path.join(VERIF, "units/lent/harness.rs"))
    write(os.path.join(crate, "src/prelude.rs"), prelude)
    write(os.path.join(crate, "src/x_gc.rs"), "#![allow(dead_code, unused_imports, unused_variables, unused_mut)]\nuse crate::prelude::*;\nuse crate::prelude::{format, stop, throw};\n\n" + text
          + "\n#[cfg(kani)]\n#[path = \"harness.rs\"]\nmod harness;\n")
    write(os.path.join(crate, "src/harness.rs"), harness)
    write(os.path.join(crate, "src/lib.rs"), "#![allow(dead_code, unused_imports, unused_macros)]\n#[macro_use]\npub mod prelude;\npub mod rvals { pub use crate::prelude::Result; }\npub mod x_gc;\n")
    meta = {"unit": NAME, "engine": "E2: verbatim item extraction into a mini crate + Kani", "items": ex.items,
            "prelude": "units/lent/prelude.rs", "prelude_sha256": sha256(prelude), "harness_sha256": sha256(harness),
            "extractor_edits": "D1; D2 (`sync`); D3 (as_mut_ref_from_ref re-wrapped in its blanket impl header)",
            "assumption_scan": scan_assumptions(harness, "units/lent/harness.rs") + scan_assumptions(prelude, "units/lent/prelude.rs")}
    return crate, meta


OBS = {
    "lent_reference_dies_with_the_call": dict(kind="proof", functions=["BorrowedObject::new", "<T as AsRefMutSteelValFromRef>::as_mut_ref_from_ref"],
        contract="a host object lent as a mutable reference: during the call the script's value converts back to exactly that object; a value of another registered type or a non-reference is a ConversionError; once the host has dropped its handle (the call ended) every use of the stored value is an error value, never a dangling pointer"),
    "readonly_lent_reference_dies_with_the_call": dict(kind="proof", functions=["ReadOnlyBorrowedObject::new", "Drop for ReadOnlyBorrowedObject", "<T as AsRefSteelValFromRef>::as_ref_from_ref", "TemporaryReadonlyView::as_ro"],
        contract="a host object lent as a shared reference (both representations): during the call the script's value reads exactly that object; after the host dropped its handle every use is an error value; a mutable lent reference or a non-reference is a ConversionError here; dropping the script's read-only value gives the parent's borrow count back"),
    "parent_is_frozen_while_a_child_reference_lives": dict(kind="proof", functions=["SteelVal::get_borrow_flag_if_borrowed_object", "SteelVal::get_borrow_count_if_borrowed_object", "increment_borrow_flag", "<T as AsRefMutSteelValFromRef>::as_mut_ref_from_ref"],
        contract="the flag handed out by get_borrow_flag_if_borrowed_object IS the one the use-time check consults: while it is set (a reference into the object is alive) a mutable use of the object is an error value, and it is usable again once the flag is cleared; shared borrows in flight (borrow count > 0) exclude a mutable use as well; wrong type / non-reference are ConversionErrors"),
}


def run_for(scratch, tier, prop):
    return run_unit(scratch, tier)


def run_unit(scratch, tier):
    crate, meta = build(scratch)
    p = os.path.join(crate, "src/harness.rs")
    write(p, read(p) + "\n#[kani::proof]\n#[kani::unwind(4)]\nfn canary_must_fail() {\n    let mut host = Host { n: 5 };\n    let (_s, v) = lend(&mut host);\n    let r = <Host as AsRefMutSteelValFromRef>::as_mut_ref_from_ref(&v);\n    let bad = r.is_err();\n    core::mem::forget(r);\n    assert!(bad, \"canary: must be reported as failing\");\n}\n")
    specs = [dict(name=n, kind=o["kind"], contract=o["contract"], functions=o["functions"], bound=o.get("bound")) for n, o in OBS.items()]
    specs.append(dict(name="canary_must_fail", kind="canary", contract="assert that must fail"))
    obs, cmd, out = kani.run_harnesses(crate, specs, NAME, "lent", jobs=3, timeout=3000, harness_timeout="10m",
                                       extra_flags=["--no-assertion-reach-checks"])
    kani.attach_counterexamples(obs, crate, "lent", out)
    return obs, meta, cmd
