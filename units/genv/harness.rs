// Contract harnesses for global definition / assignment / read (unit `genv`). Child module of x_vm.rs.
#![allow(static_mut_refs)]
use super::*;
use crate::prelude::*;
use core::cell::RefCell;

fn other(owner: u8, table: SharedVectorWrapper) -> SteelThread {
    SteelThread { stack: Vec::new(), global_env: Env { bindings: table, owner }, synchronizer: Synchronizer { others: [core::ptr::null_mut(); 2], n_others: 0 }, safepoints_enabled: true,
                  heap: HeapCell, compiler: CompilerCell(Compiler { symbol_map: SymbolMap(Vec::new()) }) }
}

fn setup(top: SteelVal, n_others: usize, safepoints: bool) -> (SteelThread, SharedVectorWrapper, isize) {
    assert!(n_others <= 2);
    unsafe { LOG = GhostLog { ev: [None; 16], n: 0 } };
    let (g0, g1): (isize, isize) = (kani::any(), kani::any());
    let mut table = SharedVectorWrapper::empty();
    table.slots[0] = SteelVal::IntV(g0);
    table.slots[1] = SteelVal::IntV(g1);
    table.len = 2;
    // the other thread contexts live for the whole harness (leaked)
    let others = [Box::leak(Box::new(other(1, table))) as *mut SteelThread, Box::leak(Box::new(other(2, table))) as *mut SteelThread];
    let below: isize = kani::any();
    let t = SteelThread { stack: vec![SteelVal::IntV(below), top], global_env: Env { bindings: table, owner: 0 }, synchronizer: Synchronizer { others, n_others },
                          safepoints_enabled: safepoints, heap: HeapCell, compiler: CompilerCell(Compiler { symbol_map: SymbolMap(vec![7, 8]) }) };
    unsafe { LOG = GhostLog { ev: [None; 16], n: 0 } };
    (t, table, below)
}

/// the world is stopped before any table is touched, every other thread's table is replaced by the updated table
/// after the update, and only then is the world resumed
unsafe fn published_to_every_thread(t: &SteelThread, n_others: usize, update: Ev) {
    assert!(LOG.count(Ev::Stop) == 1 && LOG.pos(Ev::Stop) == Some(0), "a thread's global table is touched before the world is stopped");
    assert!(LOG.count(Ev::Resume) == 1 && LOG.pos(Ev::Resume) == Some(LOG.n - 1), "the world is resumed before every thread has the updated table");
    assert!(LOG.count(update) == 1);
    let u = LOG.pos(update).unwrap();
    let g = [&*t.synchronizer.others[0], &*t.synchronizer.others[1]];
    assert!(t.synchronizer.n_others == n_others);
    let mut i = 0;
    while i < n_others {
        let k = (i + 1) as u8;
        assert!(LOG.count(Ev::UpdateOther(k)) == 1 && LOG.pos(Ev::UpdateOther(k)).unwrap() > u, "another thread does not get the updated table");
        assert!(g[i].global_env.bindings == t.global_env.bindings, "threads disagree about the global table after the update");
        i += 1;
    }
}

#[kani::proof]
#[kani::unwind(18)]
fn global_define_is_published_contract() {
    let v: isize = kani::any();
    let n_others: usize = kani::any();
    kani::assume(n_others <= 2);
    let idx: usize = kani::any();
    kani::assume(idx <= 3);
    let (mut t, old, below) = setup(SteelVal::IntV(v), n_others, true);
    {
        let mut vm = VmCore { ip: 4, thread: &mut t };
        vm.handle_bind(idx);
        assert!(vm.ip == 5);
    }
    // exactly the value on top of the stack is stored in exactly slot idx
    assert!(t.stack.len() == 1 && t.stack[0] == SteelVal::IntV(below));
    assert!(t.global_env.bindings.slots[idx] == SteelVal::IntV(v) && t.global_env.bindings.len >= idx + 1);
    let mut i = 0;
    while i < 2 {
        if i != idx {
            assert!(t.global_env.bindings.slots[i] == old.slots[i], "defining one global changed another");
        }
        i += 1;
    }
    unsafe { published_to_every_thread(&t, n_others, Ev::Define) };
}

#[kani::proof]
#[kani::unwind(18)]
fn global_set_is_published_contract() {
    let v: isize = kani::any();
    let n_others: usize = kani::any();
    kani::assume(n_others <= 2);
    let idx: usize = kani::any();
    kani::assume(idx <= 1);
    let (mut t, old, below) = setup(SteelVal::IntV(v), n_others, true);
    let r = {
        let mut vm = VmCore { ip: 4, thread: &mut t };
        let r = vm.handle_set(idx);
        assert!(vm.ip == 5);
        r
    };
    assert!(r.is_ok());
    // (set! g v): the slot holds v, the expression's value is the OLD value, nothing else changes
    assert!(t.stack.len() == 2 && t.stack[0] == SteelVal::IntV(below) && t.stack[1] == old.slots[idx]);
    assert!(t.global_env.bindings.slots[idx] == SteelVal::IntV(v) && t.global_env.bindings.slots[1 - idx] == old.slots[1 - idx] && t.global_env.bindings.len == 2);
    unsafe { published_to_every_thread(&t, n_others, Ev::Set) };
}

#[kani::proof]
#[kani::unwind(18)]
fn global_read_contract() {
    let idx: usize = kani::any();
    kani::assume(idx <= 3);
    let (mut t, old, below) = setup(SteelVal::Void, 0, true);
    let r = {
        let mut vm = VmCore { ip: 4, thread: &mut t };
        let r = vm.handle_push(idx);
        if r.is_ok() {
            assert!(vm.ip == 5);
        }
        r
    };
    if idx < 2 {
        // a variable evaluates to the value most recently bound or assigned to it
        assert!(r.is_ok() && t.stack.len() == 3 && t.stack[2] == old.slots[idx]);
    } else {
        assert!(matches!(r, Err(e) if e.kind == ErrorKind::Generic), "reading an unbound global must be a `free identifier` error value");
        assert!(t.stack.len() == 2);
    }
    assert!(t.global_env.bindings == old && unsafe { LOG.n } == 0);
}
