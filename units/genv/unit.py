"""Unit `genv` (C06, C01; engine E2): the global-variable instructions and how a definition / assignment is published to every thread."""
import os
import shutil

from vlib.common import REPO, VERIF, AnchorLost, read, write, sha256, scan_assumptions
from vlib.extract import Extractor
from vlib import kani

NAME = "genv"
VM = "crates/steel-core/src/steel_vm/vm.rs"


def build(scratch):
    ex = Extractor()
    wle = ex.fn(VM, "with_locked_env", occurrence=0)
    if "SharedVectorWrapper" not in wle:
        raise AnchorLost("with_locked_env: the first definition is no longer the `sync` one")
    thread_methods = [wle, ex.fn(VM, "local_set")]
    vm_methods = [ex.fn(VM, "handle_bind"), ex.fn(VM, "handle_set"), ex.fn(VM, "handle_push")]
    crate = os.path.join(scratch, "genvx")
    os.makedirs(os.path.join(crate, "src"))
    shutil.copy(os.path.join(REPO, "Cargo.lock"), os.path.join(crate, "Cargo.lock"))
    write(os.path.join(crate, "Cargo.toml"), "[package]\nname = \"genvx\"\nversion = \"0.0.0\"\nedition = \"2021\"\n\n[features]\ndefault = [\"sync\"]\nsync = []\n\n[dependencies]\n\n[workspace]\n\n[lints.rust]\nunexpected_cfgs = { level = \"allow\", check-cfg = ['cfg(kani)'] }\n")
    prelude = read(os.path.join(VERIF, "units/genv/prelude.rs"))
    harness = read(os.path.join(VERIF, "units/genv/harness.rs"))
    write(os.path.join(crate, "src/prelude.rs"), prelude)
    write(os.path.join(crate, "src/x_vm.rs"), "#![allow(dead_code, unused_imports, unused_variables, unused_mut, unused_unsafe)]\nuse crate::prelude::*;\nuse crate::prelude::throw;\n\nimpl SteelThread {\n    "
          + "\n\n    ".join(thread_methods) + "\n}\n\nimpl<'a> VmCore<'a> {\n    " + "\n\n    ".join(vm_methods) + "\n}\n\n#[cfg(kani)]\n#[path = \"harness.rs\"]\nmod harness;\n")
    write(os.path.join(crate, "src/harness.rs"), harness)
    write(os.path.join(crate, "src/lib.rs"), "#![allow(dead_code, unused_imports, unused_macros, static_mut_refs)]\n#[macro_use]\npub mod prelude;\npub mod x_vm;\n")
    meta = {"unit": NAME, "engine": "E2: verbatim item extraction into a mini crate + Kani", "items": ex.items,
            "prelude": "units/genv/prelude.rs", "prelude_sha256": sha256(prelude), "harness_sha256": sha256(harness),
            "extractor_edits": "D1; D2 (`sync`: the first of the two cfg-selected definitions of with_locked_env; the cfg attribute line is not copied); D3",
            "assumption_scan": scan_assumptions(harness, "units/genv/harness.rs") + scan_assumptions(prelude, "units/genv/prelude.rs")}
    return crate, meta


B = "global table of 2 defined slots (capacity 4), 0-2 other thread contexts, operand stack of 2"
PUB = ("; the update is PUBLISHED: the world is stopped before any table is touched, every other thread's table is replaced by the updated table "
       "after the update (all threads agree) and only then is the world resumed")
OBS = {
    "global_define_is_published_contract": dict(kind="bounded", bound=B, functions=["VmCore::handle_bind", "SteelThread::with_locked_env"],
        contract="BIND i (define): exactly the popped value is stored in exactly slot i, every other slot keeps its value, ip+1" + PUB),
    "global_set_is_published_contract": dict(kind="bounded", bound=B, functions=["VmCore::handle_set", "SteelThread::with_locked_env"],
        contract="SET i (set! on a global): slot i holds the popped value, the OLD value is pushed as the expression's value, nothing else changes, ip+1" + PUB),
    "global_read_contract": dict(kind="bounded", bound=B, functions=["VmCore::handle_push"],
        contract="PUSH i: pushes the current value of slot i (a variable evaluates to the value most recently bound or assigned), ip+1, table untouched; an index beyond the defined slots is a `free identifier` error value with the stack untouched"),
}


def run_for(scratch, tier, prop):
    return run_unit(scratch, tier)


def run_unit(scratch, tier):
    crate, meta = build(scratch)
    p = os.path.join(crate, "src/harness.rs")
    write(p, read(p) + "\n#[kani::proof]\n#[kani::unwind(18)]\nfn canary_must_fail() {\n    let (mut t, old, below) = setup(SteelVal::IntV(3), 1, true);\n    {\n        let mut vm = VmCore { ip: 4, thread: &mut t };\n        vm.handle_bind(0);\n    }\n    assert!(unsafe { LOG.count(Ev::Stop) } == 0, \"canary: must be reported as failing\");\n}\n")
    specs = [dict(name=n, kind=o["kind"], contract=o["contract"], functions=o["functions"], bound=o.get("bound")) for n, o in OBS.items()]
    specs.append(dict(name="canary_must_fail", kind="canary", contract="assert that must fail"))
    obs, cmd, out = kani.run_harnesses(crate, specs, NAME, "genv", jobs=4, timeout=3000, harness_timeout="10m", extra_flags=["--no-assertion-reach-checks"])
    kani.attach_counterexamples(obs, crate, "genv", out)
    return obs, meta, cmd
