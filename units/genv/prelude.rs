// Unit `genv` prelude (TRUSTED, hand written): the types the verbatim text of the global-variable instructions
// (`VmCore::{handle_bind, handle_set, handle_push}`) and of `SteelThread::with_locked_env` (the `sync` version:
// how a definition / assignment of a global is published to every thread) mentions.
//  * the global table (`SharedVectorWrapper`, contract proved in unit `env`) as a Vec-backed table that logs its updates
//  * Env::{drain_env, default_env, update_env}, Synchronizer::{stop_threads, resume_threads, call_per_ctx} as GHOST
//    RECORDERS over two other thread contexts (what stopping really waits for is C15/C16 territory, not decided here)
//  * enter_safepoint runs its closure once (unit `intr`); the heap lock is a no-op
#![allow(dead_code, unused_variables, unused_imports, unused_macros, static_mut_refs)]
use core::cell::RefCell;

#[derive(Clone, Copy, Debug, PartialEq)]
pub enum SteelVal {
    Void,
    IntV(isize),
}
#[derive(Clone, Copy, Debug, PartialEq, Eq)]
pub enum ErrorKind {
    Generic,
}
#[derive(Clone, Copy, Debug, PartialEq, Eq)]
pub struct SteelErr {
    pub kind: ErrorKind,
}
pub type Result<T> = core::result::Result<T, SteelErr>;
macro_rules! throw {
    ($type:ident => $($rest:tt)+) => {
        || $crate::prelude::SteelErr { kind: $crate::prelude::ErrorKind::$type }
    };
}
pub(crate) use throw;

#[derive(Clone, Copy, PartialEq, Debug)]
pub enum Ev {
    Stop,
    Drain,
    DefaultOther(u8),
    Define,
    Set,
    UpdateOther(u8),
    UpdateOwn,
    Resume,
}
pub struct GhostLog {
    pub ev: [Option<Ev>; 16],
    pub n: usize,
}
impl GhostLog {
    pub fn push(&mut self, e: Ev) {
        if self.n < 16 {
            self.ev[self.n] = Some(e);
        }
        self.n += 1;
    }
    pub fn pos(&self, e: Ev) -> Option<usize> {
        let mut i = 0;
        while i < 16 && i < self.n {
            if self.ev[i] == Some(e) {
                return Some(i);
            }
            i += 1;
        }
        None
    }
    pub fn count(&self, e: Ev) -> usize {
        let mut i = 0;
        let mut c = 0;
        while i < 16 && i < self.n {
            if self.ev[i] == Some(e) {
                c += 1;
            }
            i += 1;
        }
        c
    }
}
pub static mut LOG: GhostLog = GhostLog { ev: [None; 16], n: 0 };

/// the global table: 4 slots; reading beyond what was defined yields nothing
#[derive(Clone, Copy, PartialEq, Debug)]
pub struct SharedVectorWrapper {
    pub slots: [SteelVal; 4],
    pub len: usize,
}
impl SharedVectorWrapper {
    pub const fn empty() -> Self {
        SharedVectorWrapper { slots: [SteelVal::Void; 4], len: 0 }
    }
    pub fn repl_define_idx(&mut self, idx: usize, val: SteelVal) {
        unsafe { LOG.push(Ev::Define) };
        assert!(idx < 4, "genv prelude: table model capacity exceeded");
        self.slots[idx] = val;
        if idx >= self.len {
            self.len = idx + 1;
        }
    }
    pub fn set_idx(&mut self, idx: usize, val: SteelVal) -> SteelVal {
        unsafe { LOG.push(Ev::Set) };
        assert!(idx < self.len, "assignment to an undefined global slot");
        core::mem::replace(&mut self.slots[idx], val)
    }
}
pub struct Env {
    pub bindings: SharedVectorWrapper,
    /// ghost: which thread this table belongs to (0 = the executing one)
    pub owner: u8,
}
impl Env {
    pub fn update_env(&mut self, vec: SharedVectorWrapper) {
        unsafe { LOG.push(if self.owner == 0 { Ev::UpdateOwn } else { Ev::UpdateOther(self.owner) }) };
        self.bindings = vec;
    }
    pub fn default_env(&mut self) {
        if self.owner != 0 {
            unsafe { LOG.push(Ev::DefaultOther(self.owner)) };
        }
        self.bindings = SharedVectorWrapper::empty();
    }
    pub fn drain_env(&mut self) -> SharedVectorWrapper {
        unsafe { LOG.push(Ev::Drain) };
        let output = self.bindings;
        self.default_env();
        output
    }
    pub fn repl_maybe_lookup_idx(&self, idx: usize) -> Option<SteelVal> {
        if idx < self.bindings.len {
            Some(self.bindings.slots[idx])
        } else {
            None
        }
    }
    pub fn repl_set_idx(&mut self, idx: usize, val: SteelVal) -> Result<SteelVal> {
        Ok(self.bindings.set_idx(idx, val))
    }
}

pub struct Synchronizer {
    /// the other threads of this engine (raw pointers: a thread context is not owned by another one)
    pub others: [*mut SteelThread; 2],
    pub n_others: usize,
}
impl Synchronizer {
    pub fn stop_threads(&mut self) {
        unsafe { LOG.push(Ev::Stop) }
    }
    pub fn resume_threads(&mut self) {
        unsafe { LOG.push(Ev::Resume) }
    }
    pub unsafe fn call_per_ctx(&self, mut func: impl FnMut(&mut SteelThread)) {
        let mut i = 0;
        while i < self.n_others && i < 2 {
            func(&mut *self.others[i]);
            i += 1;
        }
    }
}
pub struct HeapCell;
impl HeapCell {
    pub fn lock_arc(&self) {}
}
pub struct SymbolMap(pub Vec<u32>);
impl SymbolMap {
    pub fn values(&self) -> &Vec<u32> {
        &self.0
    }
}
pub struct Compiler {
    pub symbol_map: SymbolMap,
}
pub struct CompilerCell(pub Compiler);
impl CompilerCell {
    pub fn read(&self) -> &Compiler {
        &self.0
    }
}
pub struct SteelThread {
    pub stack: Vec<SteelVal>,
    pub global_env: Env,
    pub synchronizer: Synchronizer,
    pub safepoints_enabled: bool,
    pub heap: HeapCell,
    pub compiler: CompilerCell,
}
impl SteelThread {
    pub fn enter_safepoint<T>(&mut self, mut finish: impl FnMut(&SteelThread) -> T) -> T {
        finish(self)
    }
}
pub struct VmCore<'a> {
    pub ip: usize,
    pub thread: &'a mut SteelThread,
}
