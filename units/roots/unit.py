"""Unit `roots` (C04, engine E2): root enumeration — what the collector is handed, inside `Heap::mark` and at the VM's allocation call sites."""
import os
import shutil

from vlib.common import REPO, VERIF, AnchorLost, read, write, sha256, scan_assumptions
from vlib.extract import Extractor
from vlib import kani

NAME = "roots"
CLOSED = "crates/steel-core/src/values/closed.rs"
VM = "crates/steel-core/src/steel_vm/vm.rs"
PRIMS = "crates/steel-core/src/steel_vm/primitives.rs"
HEAP_FNS = ["mark", "mark_and_sweep_new", "collection"]
VM_METHODS = ["make_box", "make_mutable_vector", "make_mutable_vector_iter", "gc_collect"]


def build(scratch):
    ex = Extractor()
    heap_methods = [ex.fn_in_impls(CLOSED, r"impl Heap\b", f) for f in HEAP_FNS]
    vm_methods = [ex.fn(VM, m) for m in VM_METHODS]
    free = [ex.fn(VM, "new_box_handler"), ex.fn(PRIMS, "make_mutable_box")]
    # the real SteelThread must still carry the root-holding fields the prelude restates
    thread = ex.item(VM, "struct", "SteelThread")
    for f in ["pub(crate) stack: Vec<SteelVal>", "stack_frames: Vec<StackFrame>", "global_env: Env", "thread_local_storage: Vec<SteelVal>", "synchronizer: Synchronizer"]:
        if f not in thread:
            raise AnchorLost(f"SteelThread field changed: {f}")
    ex.items = [i for i in ex.items if i.get("name") != "SteelThread"]
    crate = os.path.join(scratch, "rootsx")
    os.makedirs(os.path.join(crate, "src"))
    shutil.copy(os.path.join(REPO, "Cargo.lock"), os.path.join(crate, "Cargo.lock"))
    write(os.path.join(crate, "Cargo.toml"), """[package]
name = "rootsx"
version = "0.0.0"
edition = "2021"

[features]
default = ["sync"]
sync = []

[dependencies]

[workspace]

[lints.rust]
unexpected_cfgs = { level = "allow", check-cfg = ['cfg(kani)'] }
""")
    allow = "#![allow(dead_code, unused_imports, unused_variables, unused_mut, unused_unsafe)]\n"
    texts = {}
    for n in ["prelude_mark", "prelude_vm", "harness_mark", "harness_vm"]:
        texts[n] = read(os.path.join(VERIF, f"units/roots/{n}.rs"))
        write(os.path.join(crate, f"src/{n}.rs"), texts[n])
    write(os.path.join(crate, "src/x_heap.rs"), allow + "use crate::prelude_mark::*;\nuse crate::prelude_mark::log;\n\nimpl Heap {\n    " + "\n\n    ".join(heap_methods)
          + "\n}\n\n#[cfg(kani)]\n#[path = \"harness_mark.rs\"]\nmod harness_mark;\n")
    write(os.path.join(crate, "src/x_vm.rs"), allow + "use crate::prelude_vm::*;\nuse crate::prelude_vm::throw;\n\nimpl<'a> VmCore<'a> {\n    " + "\n\n    ".join(vm_methods)
          + "\n}\n\n" + "\n\n".join(free) + "\n\n#[cfg(kani)]\n#[path = \"harness_vm.rs\"]\nmod harness_vm;\n")
    write(os.path.join(crate, "src/lib.rs"), "#![allow(dead_code, unused_imports, unused_macros, static_mut_refs)]\npub mod prelude_mark;\n#[macro_use]\npub mod prelude_vm;\npub mod x_heap;\npub mod x_vm;\n")
    scan = []
    for n, t in texts.items():
        scan += scan_assumptions(t, f"units/roots/{n}.rs")
    meta = {"unit": NAME, "engine": "E2: verbatim item extraction into a mini crate + Kani", "items": ex.items,
            "prelude": "units/roots/prelude_mark.rs + units/roots/prelude_vm.rs", "prelude_sha256": sha256(texts["prelude_mark"] + texts["prelude_vm"]),
            "harness_sha256": sha256(texts["harness_mark"] + texts["harness_vm"]),
            "extractor_edits": "D1 (the #[steel_derive::context] attribute of make_mutable_box is not copied); D2 (`sync` on, `profiling` off); D3",
            "assumption_scan": scan}
    return crate, meta


B1 = "two concrete shapes: (2 stack values, 1 global, 2 thread-local slots, 2 pending vector elements, 1 host root, 2 frames capturing 2 and 1 values) and (1, 2, 0, 0, 2, 1 frame capturing 1 value); pending value present or not (symbolic)"
B2 = "operand stack of 3 symbolic values, 0-2 frames, 2 globals, 1 thread-local slot"
OBS = {
    "mark_hands_every_root_class_to_the_marker": dict(kind="bounded", bound=B1, functions=["Heap::mark"],
        contract="the root set the marker is started with contains: the pending value, every pending vector element, every thread-local slot, every operand-stack value, every global, every value captured by the function of every frame, every host-rooted value, and what enumerate_stacks contributed for other threads; the other threads are stopped BEFORE their stacks are read and marking starts AFTER that; the returned statistics are the marker's"),
    "mark_and_sweep_marks_then_advances_generation_then_resumes": dict(kind="bounded", bound=B1, functions=["Heap::mark_and_sweep_new", "Heap::mark"],
        contract="same root set; afterwards the host-root generation advances exactly once and the stopped threads are resumed exactly once, as the last step"),
    "mark_hands_every_root_class_to_the_marker_sparse": dict(kind="bounded", bound=B1, functions=["Heap::mark"], contract="same on the second shape (empty classes)"),
    "mark_and_sweep_marks_then_advances_generation_then_resumes_sparse": dict(kind="bounded", bound=B1, functions=["Heap::mark_and_sweep_new", "Heap::mark"], contract="same on the second shape (empty classes)"),
    "collection_passes_all_root_sets_on": dict(kind="bounded", bound="0-2 values per root class", functions=["Heap::collection"],
        contract="an explicit collection forwards the caller's operand stack, frames, globals, thread-local slots and the force flag unchanged, with no pending value"),
    "make_box_call_site_contract": dict(kind="bounded", bound=B2, functions=["VmCore::make_box"],
        contract="the collector entry point is called exactly once with the WHOLE operand stack (from its base, whatever the frame pointer), the function of EVERY frame in order, the whole global table, all thread-local slots and the value being boxed as pending value; the result wraps the returned handle"),
    "make_mutable_vector_call_site_contract": dict(kind="bounded", bound=B2, functions=["VmCore::make_mutable_vector"], contract="same for a mutable vector; the contents travel as pending values in order"),
    "make_mutable_vector_iter_call_site_contract": dict(kind="bounded", bound=B2, functions=["VmCore::make_mutable_vector_iter"], contract="same for make-vector (contents only exist in the iterator)"),
    "gc_collect_call_site_contract": dict(kind="bounded", bound=B2, functions=["VmCore::gc_collect"], contract="an explicit collection request is a FULL collection over the same four root sets"),
    "new_box_handler_contract": dict(kind="bounded", bound=B2, functions=["new_box_handler"],
        contract="the NEWBOX instruction: the popped value is the pending value, the rest of the operand stack (whole, from the base) and all other root sets are handed over; the handle replaces the popped value, nothing below changes, ip+2"),
    "box_primitive_call_site_contract": dict(kind="bounded", bound=B2 + "; 0-2 arguments", functions=["make_mutable_box"],
        contract="(box v): exactly one argument or an arity error without allocation; otherwise as make_box"),
}


def run_for(scratch, tier, prop):
    return run_unit(scratch, tier, prop)


def run_unit(scratch, tier, prop=None):
    crate, meta = build(scratch)
    p = os.path.join(crate, "src/harness_vm.rs")
    write(p, read(p) + "\n#[kani::proof]\n#[kani::unwind(5)]\nfn canary_must_fail() {\n    let mut t = thread();\n    {\n        let mut vm = VmCore { ip: 0, sp: 0, thread: &mut t };\n        vm.gc_collect();\n    }\n    assert!(unsafe { SEEN.calls } == 0, \"canary: must be reported as failing\");\n}\n")
    # C15 (stop-the-world protocol) is served by the Heap::mark / mark_and_sweep_new obligations only
    specs = [dict(name=n, kind=o["kind"], contract=o["contract"], functions=o["functions"], bound=o.get("bound")) for n, o in OBS.items()
             if prop != "C15" or n.startswith("mark_")]
    specs.append(dict(name="canary_must_fail", kind="canary", contract="assert that must fail"))
    obs, cmd, out = kani.run_harnesses(crate, specs, NAME, "roots", jobs=8, timeout=3000, harness_timeout="10m",
                                       extra_flags=["--no-assertion-reach-checks", "--no-overflow-checks"])
    kani.attach_counterexamples(obs, crate, "roots", out)
    return obs, meta, cmd
