// Contract harnesses for the allocation call sites of the VM (child of x_vm; unit `roots`, C04)
#![allow(unused_imports, dead_code, static_mut_refs)]
use super::*;
use crate::prelude_vm::*;
use core::marker::PhantomData;

fn thread() -> SteelThread {
    unsafe {
        SEEN = Seen { calls: 0, kind: 0, value: None, vec_len: 0, vec0: None, vec1: None, roots: (0, 0), globals: (0, 0), tls: (0, 0),
            functions: [0; 4], n_functions: 0, force_full: false, in_safepoint_when_locked: false };
        IN_SAFEPOINT = false;
    }
    let nf: usize = kani::any();
    kani::assume(nf <= 2);
    let mut frames = Vec::new();
    if nf >= 1 {
        frames.push(StackFrame { function: Gc(Box::new(ByteCodeLambda { id: 11 })) });
    }
    if nf >= 2 {
        frames.push(StackFrame { function: Gc(Box::new(ByteCodeLambda { id: 12 })) });
    }
    SteelThread {
        stack: vec![SteelVal::IntV(kani::any()), SteelVal::IntV(kani::any()), SteelVal::IntV(kani::any())],
        stack_frames: frames,
        global_env: Env { bindings: vec![SteelVal::IntV(1), SteelVal::IntV(2)] },
        thread_local_storage: vec![SteelVal::IntV(3)],
        synchronizer: Synchronizer,
        heap: HeapCell,
    }
}

/// the collector was handed the WHOLE operand stack (`stack_len` values starting at the stack's base),
/// EVERY frame's function, the WHOLE global table and ALL thread-local slots
unsafe fn check_root_sets(t: &SteelThread, stack_len: usize) {
    assert!(SEEN.calls == 1);
    assert!(SEEN.roots == (t.stack.as_ptr() as usize, stack_len), "the operand stack handed to the collector is not the whole stack");
    assert!(SEEN.n_functions == t.stack_frames.len(), "not every frame's function is handed to the collector");
    if t.stack_frames.len() >= 1 {
        assert!(SEEN.functions[0] == 11);
    }
    if t.stack_frames.len() >= 2 {
        assert!(SEEN.functions[1] == 12);
    }
    assert!(SEEN.globals == (t.global_env.bindings.as_ptr() as usize, t.global_env.bindings.len()), "the global table handed to the collector is not the whole table");
    assert!(SEEN.tls == (t.thread_local_storage.as_ptr() as usize, t.thread_local_storage.len()));
}

#[kani::proof]
#[kani::unwind(5)]
fn make_box_call_site_contract() {
    let mut t = thread();
    let sp: usize = kani::any();
    kani::assume(sp <= 3);
    let v: isize = kani::any();
    let r = {
        let mut vm = VmCore { ip: 0, sp, thread: &mut t };
        vm.make_box(SteelVal::IntV(v))
    };
    unsafe {
        check_root_sets(&t, 3);
        assert!(SEEN.kind == 1 && SEEN.value == Some(SteelVal::IntV(v)));
    }
    assert!(r == SteelVal::HeapAllocated(HeapRef(77, PhantomData)));
    assert!(t.stack.len() == 3);
}

#[kani::proof]
#[kani::unwind(5)]
fn make_mutable_vector_call_site_contract() {
    let mut t = thread();
    let sp: usize = kani::any();
    kani::assume(sp <= 3);
    let (a, b): (isize, isize) = (kani::any(), kani::any());
    let r = {
        let mut vm = VmCore { ip: 0, sp, thread: &mut t };
        vm.make_mutable_vector(vec![SteelVal::IntV(a), SteelVal::IntV(b)])
    };
    unsafe {
        check_root_sets(&t, 3);
        assert!(SEEN.kind == 2 && SEEN.vec_len == 2 && SEEN.vec0 == Some(SteelVal::IntV(a)) && SEEN.vec1 == Some(SteelVal::IntV(b)));
    }
    assert!(r == SteelVal::MutableVector(HeapRef(78, PhantomData)));
}

#[kani::proof]
#[kani::unwind(5)]
fn make_mutable_vector_iter_call_site_contract() {
    let mut t = thread();
    let sp: usize = kani::any();
    kani::assume(sp <= 3);
    let a: isize = kani::any();
    let r = {
        let mut vm = VmCore { ip: 0, sp, thread: &mut t };
        vm.make_mutable_vector_iter(core::iter::repeat(SteelVal::IntV(a)).take(2))
    };
    unsafe {
        check_root_sets(&t, 3);
        assert!(SEEN.kind == 3 && SEEN.vec_len == 2 && SEEN.vec0 == Some(SteelVal::IntV(a)) && SEEN.vec1 == Some(SteelVal::IntV(a)));
    }
    assert!(r == SteelVal::MutableVector(HeapRef(79, PhantomData)));
}

#[kani::proof]
#[kani::unwind(5)]
fn gc_collect_call_site_contract() {
    let mut t = thread();
    let sp: usize = kani::any();
    kani::assume(sp <= 3);
    {
        let mut vm = VmCore { ip: 0, sp, thread: &mut t };
        vm.gc_collect();
    }
    unsafe {
        check_root_sets(&t, 3);
        assert!(SEEN.kind == 4 && SEEN.force_full, "an explicit collection request must be a full collection");
    }
}

#[kani::proof]
#[kani::unwind(5)]
fn new_box_handler_contract() {
    let mut t = thread();
    let top = t.stack[2].clone();
    let (s0, s1) = (t.stack[0].clone(), t.stack[1].clone());
    let sp: usize = kani::any();
    kani::assume(sp <= 2);
    let ip: usize = kani::any();
    kani::assume(ip < 1 << 24);
    let r = {
        let mut vm = VmCore { ip, sp, thread: &mut t };
        let r = new_box_handler(&mut vm);
        assert!(vm.ip == ip + 2);
        r
    };
    assert!(r.is_ok());
    unsafe {
        // the operand stack minus the popped value; the popped value itself travels as the pending value
        check_root_sets(&t, 2);
        assert!(SEEN.kind == 1 && SEEN.value == Some(top));
    }
    assert!(t.stack.len() == 3 && t.stack[0] == s0 && t.stack[1] == s1);
    assert!(t.stack[2] == SteelVal::HeapAllocated(HeapRef(77, PhantomData)));
}

#[kani::proof]
#[kani::unwind(5)]
fn box_primitive_call_site_contract() {
    let mut t = thread();
    let n: usize = kani::any();
    kani::assume(n <= 2);
    let v: isize = kani::any();
    let all = [SteelVal::IntV(v), SteelVal::IntV(5)];
    let r = {
        let mut vm = VmCore { ip: 0, sp: 0, thread: &mut t };
        make_mutable_box(&mut vm, &all[..n])
    };
    match r {
        Some(Ok(x)) => {
            assert!(n == 1);
            unsafe {
                check_root_sets(&t, 3);
                assert!(SEEN.kind == 1 && SEEN.value == Some(SteelVal::IntV(v)));
            }
            assert!(x == SteelVal::HeapAllocated(HeapRef(77, PhantomData)));
        }
        Some(Err(e)) => {
            assert!(n != 1 && e.kind == ErrorKind::ArityMismatch);
            unsafe { assert!(SEEN.calls == 0) };
        }
        None => assert!(false),
    }
}
