// Contract harnesses for root enumeration inside the collector (child of x_heap; unit `roots`, C04)
#![allow(unused_imports, dead_code, static_mut_refs)]
use super::*;
use crate::prelude_mark::*;

fn reset() {
    unsafe {
        LOG = GhostLog { ev: [None; 12], n: 0 };
        MARKER_SAW = 0;
        ROOTS_STATE.roots = RootMap([SteelVal::Void; 2], 0);
        MARKER_STATS = MarkAndSweepStats { object_count: kani::any(), memory_reached_count: kani::any(), vector_reached_count: kani::any() };
    }
}

const fn two(base: u32) -> [SteelVal; 2] {
    [SteelVal::Ref(base), SteelVal::Ref(base + 1)]
}

fn bits(base: u32, n: usize) -> u64 {
    match n {
        0 => 0,
        1 => 1u64 << base,
        _ => 3u64 << base,
    }
}

struct Setup {
    roots: [SteelVal; 2],
    nr: usize,
    globals: [SteelVal; 2],
    ng: usize,
    tls: [SteelVal; 2],
    nt: usize,
    vector: [SteelVal; 2],
    nv: usize,
    fns: [ByteCodeLambda; 2],
    nf: usize,
    root_value: Option<SteelVal>,
    expected: u64,
}

/// two concrete shapes (class sizes), the pending value present or not
fn setup(full: bool) -> Setup {
    reset();
    let (nr, ng, nt, nv, nh) = if full { (2, 1, 2, 2, 1) } else { (1, 2, 0, 0, 2) };
    let (nf, c0, c1) = if full { (2, 2, 1) } else { (1, 1, 0) };
    let mut expected = bits(0, nr) | bits(4, ng) | bits(8, nt) | bits(12, nv) | bits(24, nh) | bits(16, c0);
    if nf >= 2 {
        expected |= bits(20, c1);
    }
    let root_value = if kani::any() {
        expected |= 1u64 << 30;
        Some(SteelVal::Ref(30))
    } else {
        None
    };
    unsafe {
        ROOTS_STATE.roots = RootMap(two(24), nh);
    }
    // what another thread's stack holds reaches the marker through enumerate_stacks
    expected |= 1u64 << OTHER_THREAD_VALUE;
    Setup { roots: two(0), nr, globals: two(4), ng, tls: two(8), nt, vector: two(12), nv,
            fns: [ByteCodeLambda { caps: two(16), n: c0 }, ByteCodeLambda { caps: two(20), n: c1 }], nf, root_value, expected }
}

unsafe fn check_mark_events() {
    assert!(LOG.count(Ev::Stop) == 1 && LOG.count(Ev::Enumerate) == 1 && LOG.count(Ev::Marker) == 1);
    let (s, e, m) = (LOG.pos(Ev::Stop).unwrap(), LOG.pos(Ev::Enumerate).unwrap(), LOG.pos(Ev::Marker).unwrap());
    assert!(s < e, "other threads' stacks are read before the threads are stopped");
    assert!(e < m, "marking starts before the other threads' stacks have been added");
}

fn run_mark(s: &Setup, sweep: bool) -> MarkAndSweepStats {
    let mut h = Heap { mark_and_sweep_queue: Queue::new() };
    let v = s.vector[..s.nv].iter().cloned();
    if sweep {
        h.mark_and_sweep_new(s.root_value, v, &s.roots[..s.nr], s.fns[..s.nf].iter(), &s.globals[..s.ng], &s.tls[..s.nt], &mut Synchronizer)
    } else {
        h.mark(s.root_value, v, &s.roots[..s.nr], s.fns[..s.nf].iter(), &s.globals[..s.ng], &s.tls[..s.nt], &mut Synchronizer)
    }
}

fn mark_contract(full: bool) {
    let s = setup(full);
    let stats = run_mark(&s, false);
    unsafe {
        check_mark_events();
        assert!(MARKER_SAW & s.expected == s.expected, "a root class does not reach the marker");
        assert!(LOG.count(Ev::Resume) == 0 && LOG.count(Ev::Generation) == 0);
        assert!(stats == MARKER_STATS);
    }
}

fn sweep_contract(full: bool) {
    let s = setup(full);
    let stats = run_mark(&s, true);
    unsafe {
        check_mark_events();
        assert!(MARKER_SAW & s.expected == s.expected, "a root class does not reach the marker");
        let m = LOG.pos(Ev::Marker).unwrap();
        assert!(LOG.count(Ev::Generation) == 1 && LOG.pos(Ev::Generation).unwrap() > m, "host-root generation must advance exactly once, after marking");
        assert!(LOG.count(Ev::Resume) == 1 && LOG.pos(Ev::Resume) == Some(LOG.n - 1), "threads are resumed exactly once, last");
        assert!(stats == MARKER_STATS);
    }
}

#[kani::proof]
#[kani::unwind(26)]
fn mark_hands_every_root_class_to_the_marker() {
    mark_contract(true);
}

#[kani::proof]
#[kani::unwind(26)]
fn mark_hands_every_root_class_to_the_marker_sparse() {
    mark_contract(false);
}

#[kani::proof]
#[kani::unwind(26)]
fn mark_and_sweep_marks_then_advances_generation_then_resumes() {
    sweep_contract(true);
}

#[kani::proof]
#[kani::unwind(26)]
fn mark_and_sweep_marks_then_advances_generation_then_resumes_sparse() {
    sweep_contract(false);
}

#[kani::proof]
#[kani::unwind(6)]
fn collection_passes_all_root_sets_on() {
    reset();
    let (roots, globals, tls) = (two(0), two(4), two(8));
    let fns = [ByteCodeLambda { caps: two(16), n: 0 }, ByteCodeLambda { caps: two(20), n: 0 }];
    let (nr, ng, nt, nf): (usize, usize, usize, usize) = (kani::any(), kani::any(), kani::any(), kani::any());
    kani::assume(nr <= 2 && ng <= 2 && nt <= 2 && nf <= 2);
    let force: bool = kani::any();
    let mut h = Heap { mark_and_sweep_queue: Queue::new() };
    let mut sy = Synchronizer;
    h.collection(&roots[..nr], fns[..nf].iter(), &globals[..ng], &tls[..nt], &mut sy, force);
    unsafe {
        assert!(LOG.count(Ev::ValueCollection) == 1 && LOG.n == 1);
        assert!(VC_VALUE_IS_VOID);
        assert!(VC_ROOTS == (roots.as_ptr() as usize, nr));
        assert!(VC_GLOBALS == (globals.as_ptr() as usize, ng));
        assert!(VC_TLS == (tls.as_ptr() as usize, nt));
        assert!(VC_FUNCTIONS == nf);
        assert!(VC_FORCE == force);
    }
}
