// Environment prelude of unit `roots`, part 2 (C04, engine E2): the allocation CALL SITES of the VM
// (`VmCore::{make_box, make_mutable_vector, make_mutable_vector_iter, gc_collect}`,
// `new_box_handler`, the `box` primitive `make_mutable_box`). HAND-WRITTEN AND TRUSTED.
// `Heap` is a GHOST RECORDER here: it logs which root sets each call hands to the collector
// (what the collector does with them is part 1 and the units `heapo` / `heap`).
#![allow(dead_code, unused_imports, unused_macros, unused_variables, static_mut_refs)]
use core::marker::PhantomData;

#[derive(Clone, Copy, Debug, PartialEq, Eq)]
pub enum ErrorKind {
    ArityMismatch,
    TypeMismatch,
    Generic,
}
#[derive(Clone, Copy, Debug, PartialEq, Eq)]
pub struct SteelErr {
    pub kind: ErrorKind,
}
pub type Result<T> = core::result::Result<T, SteelErr>;
macro_rules! throw {
    ($type:ident => $($rest:tt)+) => {
        || $crate::prelude_vm::SteelErr { kind: $crate::prelude_vm::ErrorKind::$type }
    };
}
pub(crate) use throw;

#[derive(Clone, Debug, PartialEq)]
pub struct HeapRef<T>(pub u32, pub PhantomData<T>);

#[derive(Clone, Debug, PartialEq)]
pub enum SteelVal {
    Void,
    IntV(isize),
    HeapAllocated(HeapRef<SteelVal>),
    MutableVector(HeapRef<Vec<SteelVal>>),
}

pub struct ByteCodeLambda {
    pub id: u32,
}
pub struct Gc<T>(pub Box<T>);
impl<T> AsRef<T> for Gc<T> {
    fn as_ref(&self) -> &T {
        &self.0
    }
}
pub struct StackFrame {
    pub function: Gc<ByteCodeLambda>,
}
pub struct Env {
    pub bindings: Vec<SteelVal>,
}
impl Env {
    pub fn roots(&self) -> &[SteelVal] {
        self.bindings.as_slice()
    }
}
pub struct Synchronizer;

/// what the collector entry points were handed
pub struct Seen {
    pub calls: u32,
    pub kind: u8, // 1 allocate, 2 allocate_vector, 3 allocate_vector_iter, 4 collection
    pub value: Option<SteelVal>,
    pub vec_len: usize,
    pub vec0: Option<SteelVal>,
    pub vec1: Option<SteelVal>,
    pub roots: (usize, usize),
    pub globals: (usize, usize),
    pub tls: (usize, usize),
    pub functions: [u32; 4],
    pub n_functions: usize,
    pub force_full: bool,
    pub in_safepoint_when_locked: bool,
}
pub static mut SEEN: Seen = Seen { calls: 0, kind: 0, value: None, vec_len: 0, vec0: None, vec1: None, roots: (0, 0), globals: (0, 0), tls: (0, 0),
    functions: [0; 4], n_functions: 0, force_full: false, in_safepoint_when_locked: false };
pub static mut IN_SAFEPOINT: bool = false;

pub struct Heap;
impl Heap {
    unsafe fn record<'a>(kind: u8, roots: &'a [SteelVal], live_functions: impl Iterator<Item = &'a ByteCodeLambda>, globals: &'a [SteelVal], tls: &'a [SteelVal]) {
        SEEN.calls += 1;
        SEEN.kind = kind;
        SEEN.roots = (roots.as_ptr() as usize, roots.len());
        SEEN.globals = (globals.as_ptr() as usize, globals.len());
        SEEN.tls = (tls.as_ptr() as usize, tls.len());
        SEEN.n_functions = 0;
        for f in live_functions {
            if SEEN.n_functions < 4 {
                SEEN.functions[SEEN.n_functions] = f.id;
            }
            SEEN.n_functions += 1;
        }
    }
    pub fn allocate<'a>(&mut self, value: SteelVal, roots: &'a [SteelVal], live_functions: impl Iterator<Item = &'a ByteCodeLambda>,
                        globals: &'a [SteelVal], tls: &'a [SteelVal], synchronizer: &'a mut Synchronizer) -> HeapRef<SteelVal> {
        unsafe {
            Self::record(1, roots, live_functions, globals, tls);
            SEEN.value = Some(value);
        }
        HeapRef(77, PhantomData)
    }
    pub fn allocate_vector<'a>(&mut self, values: Vec<SteelVal>, roots: &'a [SteelVal], live_functions: impl Iterator<Item = &'a ByteCodeLambda>,
                               globals: &'a [SteelVal], tls: &'a [SteelVal], synchronizer: &'a mut Synchronizer) -> HeapRef<Vec<SteelVal>> {
        unsafe {
            Self::record(2, roots, live_functions, globals, tls);
            SEEN.vec_len = values.len();
            SEEN.vec0 = values.get(0).cloned();
            SEEN.vec1 = values.get(1).cloned();
        }
        HeapRef(78, PhantomData)
    }
    pub fn allocate_vector_iter<'a>(&mut self, values: impl Iterator<Item = SteelVal> + Clone, roots: &'a [SteelVal],
                                    live_functions: impl Iterator<Item = &'a ByteCodeLambda>, globals: &'a [SteelVal], tls: &'a [SteelVal],
                                    synchronizer: &'a mut Synchronizer) -> HeapRef<Vec<SteelVal>> {
        unsafe {
            Self::record(3, roots, live_functions, globals, tls);
            SEEN.vec_len = 0;
            for v in values {
                if SEEN.vec_len == 0 {
                    SEEN.vec0 = Some(v);
                } else if SEEN.vec_len == 1 {
                    SEEN.vec1 = Some(v);
                }
                SEEN.vec_len += 1;
            }
        }
        HeapRef(79, PhantomData)
    }
    pub fn collection<'a>(&mut self, roots: &'a [SteelVal], live_functions: impl Iterator<Item = &'a ByteCodeLambda>, globals: &'a [SteelVal],
                          tls: &'a [SteelVal], synchronizer: &'a mut Synchronizer, force_full: bool) {
        unsafe {
            Self::record(4, roots, live_functions, globals, tls);
            SEEN.force_full = force_full;
        }
    }
}
pub static mut THE_HEAP: Heap = Heap;
pub struct HeapCell;
pub struct HeapGuard;
impl HeapCell {
    pub fn lock_arc(&self) -> HeapGuard {
        unsafe { SEEN.in_safepoint_when_locked = IN_SAFEPOINT };
        HeapGuard
    }
}
impl core::ops::Deref for HeapGuard {
    type Target = Heap;
    fn deref(&self) -> &Heap {
        unsafe { &THE_HEAP }
    }
}
impl core::ops::DerefMut for HeapGuard {
    fn deref_mut(&mut self) -> &mut Heap {
        unsafe { &mut THE_HEAP }
    }
}

pub struct SteelThread {
    pub stack: Vec<SteelVal>,
    pub stack_frames: Vec<StackFrame>,
    pub global_env: Env,
    pub thread_local_storage: Vec<SteelVal>,
    pub synchronizer: Synchronizer,
    pub heap: HeapCell,
}
impl SteelThread {
    /// the real function publishes the thread to the synchronizer around `finish` (unit `intr`)
    pub fn enter_safepoint<T>(&mut self, mut finish: impl FnMut(&SteelThread) -> T) -> T {
        unsafe { IN_SAFEPOINT = true };
        let r = finish(self);
        unsafe { IN_SAFEPOINT = false };
        r
    }
}
pub struct VmCore<'a> {
    pub ip: usize,
    pub sp: usize,
    pub thread: &'a mut SteelThread,
}
