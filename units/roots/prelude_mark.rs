// Environment prelude of unit `roots`, part 1 (C04, engine E2): `Heap::mark`, `Heap::mark_and_sweep_new`
// and `Heap::collection` of values/closed.rs. HAND-WRITTEN AND TRUSTED.
//   * MarkAndSweepContext::push_back is a GHOST RECORDER: it stores every value it is handed (the
//     real filter and the traversal are unit `heap`)
//   * Synchronizer::{stop_threads, enumerate_stacks, resume_threads}, MARKER.mark and
//     Roots::increment_generation log an event; MARKER.mark also snapshots the root set it is given
//   * GLOBAL_ROOTS is a lock around one Roots value (host-rooted values)
#![allow(dead_code, unused_imports, unused_macros, unused_variables, static_mut_refs)]

pub mod log {
    macro_rules! debug {
        ($($t:tt)*) => {};
    }
    pub(crate) use debug;
}

#[derive(Clone, Copy, Debug, PartialEq)]
pub enum SteelVal {
    Void,
    IntV(isize),
    /// a value that may contain references; the payload identifies it in the harness
    Ref(u32),
}

pub struct ByteCodeLambda {
    pub caps: [SteelVal; 2],
    pub n: usize,
}
impl ByteCodeLambda {
    pub fn captures(&self) -> &[SteelVal] {
        &self.caps[..self.n]
    }
}

/// the marker's work list: fixed-capacity sequence (the real field is a Vec<SteelVal>; CBMC runs out
/// of memory on Vec growth here). Only `push` and the view as a slice are used by the extracted text.
pub struct Queue {
    pub items: [SteelVal; 24],
    pub n: usize,
}
impl Queue {
    pub const fn new() -> Self {
        Queue { items: [SteelVal::Void; 24], n: 0 }
    }
    pub fn push(&mut self, v: SteelVal) {
        if self.n < 24 {
            self.items[self.n] = v;
        }
        self.n += 1;
    }
}
impl core::ops::Deref for Queue {
    type Target = [SteelVal];
    fn deref(&self) -> &[SteelVal] {
        &self.items[..if self.n < 24 { self.n } else { 24 }]
    }
}

#[derive(Debug, Clone, Default, PartialEq)]
pub struct MarkAndSweepStats {
    pub object_count: usize,
    pub memory_reached_count: usize,
    pub vector_reached_count: usize,
}

pub struct MarkAndSweepContext<'a> {
    pub queue: &'a mut Queue,
    pub stats: MarkAndSweepStats,
}
impl<'a> MarkAndSweepContext<'a> {
    pub fn push_back(&mut self, value: SteelVal) {
        self.queue.push(value);
    }
    pub fn visit(&mut self) {}
}

#[derive(Clone, Copy, PartialEq, Debug)]
pub enum Ev {
    Stop,
    Enumerate,
    Marker,
    Generation,
    Resume,
    ValueCollection,
}
pub struct GhostLog {
    pub ev: [Option<Ev>; 12],
    pub n: usize,
}
impl GhostLog {
    pub fn push(&mut self, e: Ev) {
        if self.n < 12 {
            self.ev[self.n] = Some(e);
        }
        self.n += 1;
    }
    pub fn pos(&self, e: Ev) -> Option<usize> {
        let mut i = 0;
        while i < 12 && i < self.n {
            if self.ev[i] == Some(e) {
                return Some(i);
            }
            i += 1;
        }
        None
    }
    pub fn count(&self, e: Ev) -> usize {
        let mut i = 0;
        let mut c = 0;
        while i < 12 && i < self.n {
            if self.ev[i] == Some(e) {
                c += 1;
            }
            i += 1;
        }
        c
    }
}
pub static mut LOG: GhostLog = GhostLog { ev: [None; 12], n: 0 };
/// ids of the `Ref` values the marker was started with (bit set)
pub static mut MARKER_SAW: u64 = 0;
pub static mut MARKER_STATS: MarkAndSweepStats = MarkAndSweepStats { object_count: 0, memory_reached_count: 0, vector_reached_count: 0 };
/// id of the value another thread's stack holds (pushed by the ghost enumerate_stacks)
pub const OTHER_THREAD_VALUE: u32 = 40;

pub struct Synchronizer;
impl Synchronizer {
    pub fn stop_threads(&mut self) {
        unsafe { LOG.push(Ev::Stop) }
    }
    pub unsafe fn enumerate_stacks(&mut self, context: &mut MarkAndSweepContext) {
        LOG.push(Ev::Enumerate);
        context.push_back(SteelVal::Ref(OTHER_THREAD_VALUE));
    }
    pub fn resume_threads(&mut self) {
        unsafe { LOG.push(Ev::Resume) }
    }
}

pub struct Marker;
impl Marker {
    pub fn mark(&self, queue: &[SteelVal]) -> MarkAndSweepStats {
        unsafe {
            LOG.push(Ev::Marker);
            MARKER_SAW = 0;
            for v in queue {
                if let SteelVal::Ref(id) = v {
                    if *id < 64 {
                        MARKER_SAW |= 1u64 << *id;
                    }
                }
            }
            MARKER_STATS.clone()
        }
    }
}
pub static MARKER: Marker = Marker;

pub struct RootMap(pub [SteelVal; 2], pub usize);
impl RootMap {
    pub fn values(&self) -> core::slice::Iter<'_, SteelVal> {
        self.0[..self.1].iter()
    }
}
pub struct Roots {
    pub roots: RootMap,
}
impl Roots {
    pub fn increment_generation(&mut self) {
        unsafe { LOG.push(Ev::Generation) }
    }
}
pub static mut ROOTS_STATE: Roots = Roots { roots: RootMap([SteelVal::Void; 2], 0) };
pub struct RootsLock;
pub struct RootsGuard;
impl RootsLock {
    pub fn lock(&self) -> Result<RootsGuard, ()> {
        Ok(RootsGuard)
    }
}
impl core::ops::Deref for RootsGuard {
    type Target = Roots;
    fn deref(&self) -> &Roots {
        unsafe { &ROOTS_STATE }
    }
}
impl core::ops::DerefMut for RootsGuard {
    fn deref_mut(&mut self) -> &mut Roots {
        unsafe { &mut ROOTS_STATE }
    }
}
pub static GLOBAL_ROOTS: RootsLock = RootsLock;

pub struct Heap {
    pub mark_and_sweep_queue: Queue,
}
/// what `Heap::collection` hands to the collection proper (the policy itself is unit `heapo`)
pub static mut VC_VALUE_IS_VOID: bool = false;
pub static mut VC_ROOTS: (usize, usize) = (0, 0);
pub static mut VC_GLOBALS: (usize, usize) = (0, 0);
pub static mut VC_TLS: (usize, usize) = (0, 0);
pub static mut VC_FUNCTIONS: usize = 0;
pub static mut VC_FORCE: bool = false;
impl Heap {
    pub fn value_collection<'a>(
        &mut self,
        value: &SteelVal,
        roots: &'a [SteelVal],
        live_functions: impl Iterator<Item = &'a ByteCodeLambda>,
        globals: &'a [SteelVal],
        tls: &'a [SteelVal],
        synchronizer: &'a mut Synchronizer,
        force_full: bool,
    ) {
        unsafe {
            LOG.push(Ev::ValueCollection);
            VC_VALUE_IS_VOID = *value == SteelVal::Void;
            VC_ROOTS = (roots.as_ptr() as usize, roots.len());
            VC_GLOBALS = (globals.as_ptr() as usize, globals.len());
            VC_TLS = (tls.as_ptr() as usize, tls.len());
            VC_FUNCTIONS = live_functions.count();
            VC_FORCE = force_full;
        }
    }
}
