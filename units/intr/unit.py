"""Unit `intr` (C17, engine E2): the interruption flag protocol of steel_vm/vm.rs."""
import os
import shutil

from vlib.common import REPO, VERIF, AnchorLost, read, write, sha256, scan_assumptions
from vlib.extract import Extractor
from vlib import kani

NAME = "intr"
VM = "crates/steel-core/src/steel_vm/vm.rs"

STD_SHIM = """// `std::thread::park` / `std::thread::current` as used by the extracted bodies are shadowed by this
// local module (a ghost park stub); everything else is the real std
mod std {
    pub mod thread {
        pub fn park() {
            crate::prelude::ghost_park()
        }
        pub struct Tid;
        impl Tid {
            pub fn id(&self) -> u32 {
                0
            }
        }
        pub fn current() -> Tid {
            Tid
        }
    }
    pub mod sync {
        pub mod atomic {
            pub use core::sync::atomic::Ordering;
        }
    }
}
"""


def build(scratch):
    ex = Extractor()
    parts = ["#[derive(Copy, Clone, Default, Debug, PartialEq, Eq)] // real: Copy, Clone, Default, Debug\n" + ex.item(VM, "enum", "ThreadState").replace("#[default]", "#[default]"),
             "#[derive(Clone, Default)]\n" + ex.item(VM, "struct", "ThreadStateController"),
             ex.impl_block(VM, r"impl ThreadStateController")]
    sync = ex.item(VM, "struct", "Synchronizer")
    for f in ["pub(crate) state: ThreadStateController", "pub(crate) ctx: Arc<AtomicCell<Option<*mut SteelThread>>>", "spawned_via_make_thread: bool"]:
        if f not in sync:
            raise AnchorLost(f"Synchronizer field changed: {f}")
    ex.items.pop()
    vmm = [ex.fn(VM, "safepoint_or_interrupt"), ex.fn(VM, "park_thread_while_paused")]
    thr = [ex.fn(VM, "enter_safepoint"), ex.fn(VM, "enter_safepoint_once")]
    IH = "crates/steel-core/src/steel_vm/interrupt.rs"
    ih_struct = ex.item(IH, "struct", "InterruptHandler")
    for f in ["controller: ThreadStateController", "running: Arc<AtomicBool>", "handle: std::thread::JoinHandle<()>", "done: crossbeam_channel::Sender<()>"]:
        if f not in ih_struct:
            raise AnchorLost(f"InterruptHandler field changed: {f}")
    ex.items.pop()
    s0, ob0, end0 = ex.impl_range(IH, r"impl InterruptHandler")
    ih = "impl InterruptHandler {\n    " + ex.fn(IH, "run_with_timeout", within=(ob0, end0)) + "\n}\n"
    text = ("\n\n".join(parts) + "\n\nimpl<'a> VmCore<'a> {\n    " + "\n\n    ".join(vmm) + "\n}\n\nimpl SteelThread {\n    " + "\n\n    ".join(thr) + "\n}\n\n" + ih)
    crate = os.path.join(scratch, "intrx")
    os.makedirs(os.path.join(crate, "src"))
    shutil.copy(os.path.join(REPO, "Cargo.lock"), os.path.join(crate, "Cargo.lock"))
    write(os.path.join(crate, "Cargo.toml"), """[package]
name = "intrx"
version = "0.0.0"
edition = "2021"

[features]
default = ["sync"]
sync = []

[dependencies]

[workspace]

[lints.rust]
unexpected_cfgs = { level = "allow", check-cfg = ['cfg(kani)'] }
""")
    prelude = read(os.path.join(VERIF, "units/intr/prelude.rs"))
    harness = read(os.path.join(VERIF, "units/intr/harness.rs"))
    write(os.path.join(crate, "src/prelude.rs"), prelude)
    write(os.path.join(crate, "src/x_vm.rs"), "#![allow(dead_code, unused_imports, unused_variables, unused_mut)]\nuse crate::prelude::*;\nuse crate::prelude::{format, stop};\n"
          + STD_SHIM + "\n" + text + "\n#[cfg(kani)]\n#[path = \"harness.rs\"]\nmod harness;\n")
    write(os.path.join(crate, "src/harness.rs"), harness)
    write(os.path.join(crate, "src/lib.rs"), "#![allow(dead_code, unused_imports, unused_macros, static_mut_refs)]\n#[macro_use]\npub mod prelude;\npub mod x_vm;\n")
    meta = {"unit": NAME, "engine": "E2: verbatim item extraction into a mini crate + Kani", "items": ex.items,
            "prelude": "units/intr/prelude.rs", "prelude_sha256": sha256(prelude), "harness_sha256": sha256(harness),
            "extractor_edits": "D1; D2 (feature sync on, so cfg!(feature = \"sync\") is true); D3; `std::thread::park/current` shadowed by a local `mod std` (ghost stub); PartialEq/Eq added to ThreadState's derive for the harness",
            "assumption_scan": scan_assumptions(harness, "units/intr/harness.rs") + scan_assumptions(prelude, "units/intr/prelude.rs")}
    return crate, meta


OBS = {
    "controller_transitions_contract": dict(kind="proof", functions=["ThreadStateController::interrupt", "resume", "suspend", "pause_for_safepoint"],
                                            contract="interrupt => paused && Interrupted; resume => !paused && Running; suspend => paused && Suspended; pause_for_safepoint => paused && PausedAtSafepoint, from every prior state"),
    "safepoint_or_interrupt_contract": dict(kind="proof", functions=["VmCore::safepoint_or_interrupt", "VmCore::park_thread_while_paused"],
                                            contract="for every (paused, state, spawned_via_make_thread): paused && Interrupted => Err(Generic) WITHOUT parking and without publishing the thread pointer; !paused => Ok, no park; Suspended => parks until resumed, Ok; PausedAtSafepoint => the pointer is published while parked and retracted before returning"),
    "interrupt_then_poll_lemma": dict(kind="proof", functions=["ThreadStateController::interrupt", "ThreadStateController::resume", "VmCore::safepoint_or_interrupt"],
                                      contract="after interrupt() the next poll is an error from every prior state (the running evaluation stops); after resume() polls succeed again (the engine is usable)"),
    "run_with_timeout_contract": dict(kind="proof", functions=["InterruptHandler::run_with_timeout", "ThreadStateController::resume"],
                                      contract="whether or not the watchdog interrupted the evaluation: the closure runs exactly once, the watchdog is told the run is over (one message, running cleared) and the controller is resumed AFTER the run, so the engine is usable again"),
    "enter_safepoint_contract": dict(kind="bounded", bound="the host resumes after at most 2 parks", functions=["SteelThread::enter_safepoint", "SteelThread::enter_safepoint_once"],
                                     contract="a thread blocked in a safepoint leaves its wait loop when Interrupted (without waiting to be resumed) and always retracts the published pointer; the closure runs exactly once"),
}


def run_unit(scratch, tier):
    crate, meta = build(scratch)
    p = os.path.join(crate, "src/harness.rs")
    write(p, read(p) + "\n#[kani::proof]\nfn canary_must_fail() {\n    let c = ThreadStateController::default();\n    c.interrupt();\n    assert!(c.state.load() == ThreadState::Running, \"canary: must be reported as failing\");\n}\n")
    specs = [dict(name=n, kind=o["kind"], contract=o["contract"], functions=o["functions"], bound=o.get("bound")) for n, o in OBS.items()]
    specs.append(dict(name="canary_must_fail", kind="canary", contract="assert that must fail"))
    obs, cmd, out = kani.run_harnesses(crate, specs, NAME, "intr", jobs=6, timeout=2000, harness_timeout="5m",
                                       extra_flags=["--no-assertion-reach-checks"])
    kani.attach_counterexamples(obs, crate, "intr", out)
    return obs, meta, cmd
