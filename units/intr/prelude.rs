// Environment prelude of unit `intr` (C17, engine E2). HAND-WRITTEN AND TRUSTED.
// Restated (NOT verified): AtomicCell as a plain cell (one thread; no interleavings are decided
// here - that is C15, not applicable), SteelThread/Synchronizer/VmCore reduced to the fields the
// extracted bodies touch, message-less stop!, and `std::thread::park()` replaced by a ghost stub
// that counts calls and, like the host that eventually resumes a parked thread, clears `paused`
// after a fixed number of parks (so park loops terminate in the model).
#![allow(dead_code, unused_imports, unused_macros, unused_variables)]
pub use std::sync::atomic::AtomicBool;
pub use std::sync::Arc;
use core::cell::Cell;

#[derive(Clone, Copy, Debug, PartialEq, Eq)]
pub enum ErrorKind {
    Generic,
}
#[derive(Clone, Copy, Debug, PartialEq, Eq)]
pub struct SteelErr {
    pub kind: ErrorKind,
}
pub type Result<T> = core::result::Result<T, SteelErr>;
#[derive(Clone, Copy, Debug, Default)]
pub struct Span;
pub struct Msg;
macro_rules! stop {
    ($type:ident => $($rest:tt)+) => {
        return Err($crate::prelude::SteelErr { kind: $crate::prelude::ErrorKind::$type })
    };
}
macro_rules! format {
    ($($rest:tt)*) => {
        $crate::prelude::Msg
    };
}
pub(crate) use {format, stop};

#[derive(Default, Debug)]
pub struct AtomicCell<T: Copy>(Cell<T>);
impl<T: Copy> AtomicCell<T> {
    pub fn new(v: T) -> Self {
        AtomicCell(Cell::new(v))
    }
    pub fn load(&self) -> T {
        self.0.get()
    }
    pub fn store(&self, v: T) {
        self.0.set(v)
    }
}

pub static mut PARKS: u32 = 0;
pub static mut CTX_WHILE_PARKED: u32 = 0;
pub static mut RESUME_AFTER: u32 = 1;
pub static mut PAUSED_FLAG: Option<Arc<AtomicBool>> = None;
pub static mut CTX_CELL: Option<Arc<AtomicCell<Option<*mut SteelThread>>>> = None;

pub fn ghost_park() {
    unsafe {
        PARKS += 1;
        if let Some(c) = &*core::ptr::addr_of!(CTX_CELL) {
            if c.load().is_some() {
                CTX_WHILE_PARKED += 1;
            }
        }
        if PARKS >= RESUME_AFTER {
            if let Some(p) = &*core::ptr::addr_of!(PAUSED_FLAG) {
                p.store(false, std::sync::atomic::Ordering::Relaxed);
            }
        }
    }
}

pub struct Synchronizer {
    pub state: crate::x_vm::ThreadStateController,
    pub ctx: Arc<AtomicCell<Option<*mut SteelThread>>>,
    pub spawned_via_make_thread: bool,
}
pub struct SteelThread {
    pub synchronizer: Synchronizer,
    pub safepoints_enabled: bool,
}
pub struct VmCore<'a> {
    pub thread: &'a mut SteelThread,
}
impl<'a> VmCore<'a> {
    pub fn current_span(&self) -> Span {
        Span
    }
}

/// result type of enter_safepoint_once (only its identity matters here)
pub type SteelVal = u8;

// ---- watchdog side (interrupt.rs): the thread handle and the channel are ghost counters
#[derive(Default)]
pub struct GhostThread {
    pub unparks: Cell<u32>,
}
impl GhostThread {
    pub fn unpark(&self) {
        self.unparks.set(self.unparks.get() + 1)
    }
}
#[derive(Default)]
pub struct GhostJoinHandle {
    pub t: GhostThread,
}
impl GhostJoinHandle {
    pub fn thread(&self) -> &GhostThread {
        &self.t
    }
}
#[derive(Default)]
pub struct GhostSender {
    pub sent: Cell<u32>,
    /// controller state observed when the "run is over" message was sent
    pub paused_when_sent: Cell<bool>,
}
impl GhostSender {
    pub fn send(&self, _m: ()) -> core::result::Result<(), ()> {
        self.sent.set(self.sent.get() + 1);
        Ok(())
    }
}
pub struct InterruptHandler {
    pub controller: crate::x_vm::ThreadStateController,
    pub running: Arc<AtomicBool>,
    pub handle: GhostJoinHandle,
    pub done: GhostSender,
}
