// Contract harnesses for the interruption protocol (child module of x_vm; unit `intr`, C17)
#![allow(unused_imports, dead_code, static_mut_refs)]
use super::*;
use crate::prelude::*;
use core::sync::atomic::Ordering;

fn any_state() -> ThreadState {
    let k: u8 = kani::any();
    match k % 4 {
        0 => ThreadState::Running,
        1 => ThreadState::Interrupted,
        2 => ThreadState::Suspended,
        _ => ThreadState::PausedAtSafepoint,
    }
}

fn any_controller() -> ThreadStateController {
    ThreadStateController { paused: Arc::new(AtomicBool::new(kani::any())), state: Arc::new(AtomicCell::new(any_state())) }
}

fn thread_with(c: ThreadStateController, spawned: bool) -> SteelThread {
    let ctx = Arc::new(AtomicCell::new(None));
    unsafe {
        PARKS = 0;
        CTX_WHILE_PARKED = 0;
        PAUSED_FLAG = Some(c.paused.clone());
        CTX_CELL = Some(ctx.clone());
    }
    SteelThread { synchronizer: Synchronizer { state: c, ctx, spawned_via_make_thread: spawned }, safepoints_enabled: true }
}

#[kani::proof]
fn controller_transitions_contract() {
    let c = any_controller();
    c.interrupt();
    assert!(c.paused.load(Ordering::SeqCst) && c.state.load() == ThreadState::Interrupted);
    let c = any_controller();
    c.resume();
    assert!(!c.paused.load(Ordering::SeqCst) && c.state.load() == ThreadState::Running);
    let c = any_controller();
    c.suspend();
    assert!(c.paused.load(Ordering::SeqCst) && c.state.load() == ThreadState::Suspended);
    let c = any_controller();
    c.pause_for_safepoint();
    assert!(c.paused.load(Ordering::SeqCst) && c.state.load() == ThreadState::PausedAtSafepoint);
}

#[kani::proof]
#[kani::unwind(4)]
fn safepoint_or_interrupt_contract() {
    let c = any_controller();
    let paused0 = c.paused.load(Ordering::SeqCst);
    let st0 = c.state.load();
    let mut t = thread_with(c, false);
    unsafe {
        RESUME_AFTER = 1;
    }
    let mut vm = VmCore { thread: &mut t };
    let r = vm.safepoint_or_interrupt();
    let parks = unsafe { PARKS };
    let ctx_seen = unsafe { CTX_WHILE_PARKED };
    if !paused0 {
        assert!(r.is_ok() && parks == 0);
    } else {
        match st0 {
            ThreadState::Interrupted => {
                assert!(matches!(r, Err(e) if e.kind == ErrorKind::Generic), "an interrupted evaluation must stop with an error");
                assert!(parks == 0, "an interrupted thread must not go to sleep");
            }
            ThreadState::Suspended => assert!(r.is_ok() && parks == 1 && ctx_seen == 0),
            ThreadState::PausedAtSafepoint => assert!(r.is_ok() && parks == 1 && ctx_seen == 1, "the stack must be visible exactly while parked"),
            ThreadState::Running => assert!(r.is_ok() && parks == 0),
        }
    }
    assert!(t.synchronizer.ctx.load().is_none(), "the published thread pointer must be retracted");
}

#[kani::proof]
#[kani::unwind(4)]
fn interrupt_then_poll_lemma() {
    let c = any_controller();
    let host_side = c.clone();
    let mut t = thread_with(c, kani::any());
    unsafe {
        RESUME_AFTER = 1;
    }
    host_side.interrupt();
    {
        let mut vm = VmCore { thread: &mut t };
        assert!(vm.safepoint_or_interrupt().is_err(), "after interrupt() the next poll must fail");
        assert!(vm.safepoint_or_interrupt().is_err(), "and keeps failing until resumed");
    }
    assert!(unsafe { PARKS } == 0);
    host_side.resume();
    {
        let mut vm = VmCore { thread: &mut t };
        assert!(vm.safepoint_or_interrupt().is_ok(), "after resume() the engine runs again");
    }
}

#[kani::proof]
#[kani::unwind(5)]
fn enter_safepoint_contract() {
    let c = any_controller();
    let paused0 = c.paused.load(Ordering::SeqCst);
    let st0 = c.state.load();
    let mut t = thread_with(c, false);
    unsafe {
        RESUME_AFTER = 2;
    }
    let mut runs = 0u32;
    let v = t.enter_safepoint(|_th| {
        runs += 1;
        7u8
    });
    assert!(v == 7 && runs == 1);
    assert!(t.synchronizer.ctx.load().is_none(), "the published thread pointer must be retracted");
    let parks = unsafe { PARKS };
    if paused0 && st0 == ThreadState::Interrupted {
        assert!(parks == 0, "an interrupted thread must leave the safepoint wait loop at once");
    }
    if !paused0 {
        assert!(parks == 0);
    }
    // the once-variant
    let c2 = any_controller();
    let p2 = c2.paused.load(Ordering::SeqCst);
    let s2 = c2.state.load();
    let mut t2 = thread_with(c2, false);
    let r = t2.enter_safepoint_once(|_th| Ok(5u8));
    assert!(r == Ok(5) && t2.synchronizer.ctx.load().is_none());
    if p2 && s2 == ThreadState::Interrupted {
        assert!(unsafe { PARKS } == 0);
    }
}

/// the host-side wrapper: whatever happened during the run (the watchdog may have interrupted it),
/// afterwards the engine is resumed and the watchdog disarmed
#[kani::proof]
fn run_with_timeout_contract() {
    let c = any_controller();
    let watchdog_side = c.clone();
    let h = InterruptHandler { controller: c, running: Arc::new(AtomicBool::new(kani::any())), handle: GhostJoinHandle::default(), done: GhostSender::default() };
    let fires: bool = kani::any();
    let mut runs = 0u32;
    let running_during = core::cell::Cell::new(false);
    let r = h.run_with_timeout(|| {
        runs += 1;
        running_during.set(h.running.load(Ordering::SeqCst));
        if fires {
            // the watchdog's timeout elapses while the evaluation runs
            watchdog_side.interrupt();
        }
        41u8
    });
    assert!(r == 41 && runs == 1);
    assert!(running_during.get() && h.handle.t.unparks.get() == 1, "the watchdog must be armed and woken for the run");
    assert!(h.done.sent.get() == 1 && !h.running.load(Ordering::SeqCst), "the watchdog must be told the run is over");
    assert!(!h.controller.paused.load(Ordering::SeqCst) && h.controller.state.load() == ThreadState::Running,
            "after an interrupted run the engine must be resumed, or the next evaluation fails immediately");
}
