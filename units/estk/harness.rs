// Contract harness for the roots of other threads (unit `estk`). Child module of x_vm.rs.
use super::*;
use crate::prelude::*;
use core::cell::RefCell;

fn lam(ids: &[u32]) -> &'static ByteCodeLambda {
    let mut caps = Vec::new();
    let mut i = 0;
    while i < ids.len() {
        caps.push(SteelVal::Ref(ids[i]));
        i += 1;
    }
    Box::leak(Box::new(ByteCodeLambda { caps }))
}

fn thread(base: u32) -> &'static mut SteelThread {
    Box::leak(Box::new(SteelThread {
        stack: vec![SteelVal::Void, SteelVal::Ref(base)],
        stack_frames: vec![StackFrame { function: lam(&[base + 1]) }, StackFrame { function: lam(&[base + 2]) }],
        current_frame: StackFrame { function: lam(&[base + 3]) },
        thread_local_storage: vec![SteelVal::Ref(base + 4)],
    }))
}

const fn bits(lo: u32, hi: u32) -> u64 {
    ((1u64 << (hi + 1)) - 1) & !((1u64 << lo) - 1)
}

/// the collecting thread (not enumerated: its roots are passed to Heap::mark directly), one other thread parked at a
/// safepoint (it has published a pointer to itself), one thread that has already finished (its cell is gone)
#[kani::proof]
#[kani::unwind(6)]
fn every_parked_thread_contributes_all_its_roots() {
    let me = Arc::new(AtomicCell::new(None));
    let parked_thread = thread(10);
    let parked = Arc::new(AtomicCell::new(Some(parked_thread as *mut SteelThread)));
    let gone = Arc::new(AtomicCell::new(None));
    let gone_weak = Arc::downgrade(&gone);
    drop(gone);
    let list = vec![
        ThreadContext { ctx: Arc::downgrade(&me), handle: SteelVal::Void },
        ThreadContext { ctx: Arc::downgrade(&parked), handle: SteelVal::Void },
        ThreadContext { ctx: gone_weak, handle: SteelVal::Void },
    ];
    let mut s = Synchronizer { threads: Arc::new(Mutex(RefCell::new(list))), ctx: me.clone() };
    let mut m = MarkAndSweepContext { seen: 0, visits: 0 };
    unsafe { s.enumerate_stacks(&mut m) };
    // operand stack, the captures of EVERY frame's function and of the current frame's, and the thread-local slots
    assert!(m.seen == bits(10, 14), "a root class of a parked thread is not handed to the marker");
    core::mem::forget(parked);
}

/// a thread that is not parked at a safepoint but whose context can be locked (a forked native thread) is read
/// through its handle
#[kani::proof]
#[kani::unwind(6)]
fn forked_thread_contributes_all_its_roots() {
    let me = Arc::new(AtomicCell::new(None));
    let not_parked = Arc::new(AtomicCell::new(None));
    let forked: Arc<Mutex<SteelThread>> = Arc::new(Mutex(RefCell::new(SteelThread {
        stack: vec![SteelVal::Ref(20)],
        stack_frames: vec![StackFrame { function: lam(&[21]) }],
        current_frame: StackFrame { function: lam(&[22]) },
        thread_local_storage: vec![SteelVal::Ref(23)],
    })));
    let cell: &'static CustomCell = Box::leak(Box::new(CustomCell(RefCell::new(Box::new(ThreadHandle { forked_thread_handle: Some(Arc::downgrade(&forked)) })))));
    let list = vec![ThreadContext { ctx: Arc::downgrade(&not_parked), handle: SteelVal::Custom(cell) }];
    let mut s = Synchronizer { threads: Arc::new(Mutex(RefCell::new(list))), ctx: me.clone() };
    let mut m = MarkAndSweepContext { seen: 0, visits: 0 };
    unsafe { s.enumerate_stacks(&mut m) };
    assert!(m.seen == bits(20, 23), "a root class of a forked thread is not handed to the marker");
    core::mem::forget(forked);
    core::mem::forget(not_parked);
}
