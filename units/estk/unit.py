"""Unit `estk` (C04, C15; engine E2): Synchronizer::enumerate_stacks - the roots other threads contribute to a collection."""
import os
import shutil

from vlib.common import REPO, VERIF, read, write, sha256, scan_assumptions
from vlib.extract import Extractor
from vlib import kani

NAME = "estk"
VM = "crates/steel-core/src/steel_vm/vm.rs"


def build(scratch):
    ex = Extractor()
    fn = ex.fn(VM, "enumerate_stacks")
    crate = os.path.join(scratch, "estkx")
    os.makedirs(os.path.join(crate, "src"))
    shutil.copy(os.path.join(REPO, "Cargo.lock"), os.path.join(crate, "Cargo.lock"))
    write(os.path.join(crate, "Cargo.toml"), "[package]\nname = \"estkx\"\nversion = \"0.0.0\"\nedition = \"2021\"\n\n[dependencies]\n\n[workspace]\n\n[lints.rust]\nunexpected_cfgs = { level = \"allow\", check-cfg = ['cfg(kani)'] }\n")
    prelude = read(os.path.join(VERIF, "units/estk/prelude.rs"))
    harness = read(os.path.join(VERIF, "units/estk/harness.rs"))
    write(os.path.join(crate, "src/prelude.rs"), prelude)
    write(os.path.join(crate, "src/x_vm.rs"), "#![allow(dead_code, unused_imports, unused_variables, unused_mut, unused_unsafe)]\nuse crate::prelude::*;\nuse crate::prelude::log;\n\nimpl Synchronizer {\n    " + fn + "\n}\n\n#[cfg(kani)]\n#[path = \"harness.rs\"]\nmod harness;\n")
    write(os.path.join(crate, "src/harness.rs"), harness)
    write(os.path.join(crate, "src/lib.rs"), "#![allow(dead_code, unused_imports, unused_macros)]\npub mod prelude;\npub mod x_vm;\n")
    meta = {"unit": NAME, "engine": "E2: verbatim item extraction into a mini crate + Kani", "items": ex.items,
            "prelude": "units/estk/prelude.rs", "prelude_sha256": sha256(prelude), "harness_sha256": sha256(harness), "extractor_edits": "D1; D3",
            "assumption_scan": scan_assumptions(harness, "units/estk/harness.rs") + scan_assumptions(prelude, "units/estk/prelude.rs")}
    return crate, meta


OBS = {
    "every_parked_thread_contributes_all_its_roots": dict(kind="bounded", bound="the collecting thread + one thread parked at a safepoint (stack of 2, 2 frames + current frame, 1 thread-local slot) + one finished thread", functions=["Synchronizer::enumerate_stacks"],
        contract="for every OTHER thread that has published itself at a safepoint the marker is handed its whole operand stack, every value captured by the function of EVERY frame and of the current frame, and its thread-local slots; the collecting thread itself and threads that no longer exist are skipped"),
    "forked_thread_contributes_all_its_roots": dict(kind="bounded", bound="one forked thread that is not parked but whose context can be locked", functions=["Synchronizer::enumerate_stacks"],
        contract="a forked thread that has not published itself is read through its handle (same four root classes)"),
}


def run_for(scratch, tier, prop):
    return run_unit(scratch, tier)


def run_unit(scratch, tier):
    crate, meta = build(scratch)
    p = os.path.join(crate, "src/harness.rs")
    write(p, read(p) + "\n#[kani::proof]\n#[kani::unwind(6)]\nfn canary_must_fail() {\n    let me = Arc::new(AtomicCell::new(None));\n    let parked_thread = thread(10);\n    let parked = Arc::new(AtomicCell::new(Some(parked_thread as *mut SteelThread)));\n    let list = vec![ThreadContext { ctx: Arc::downgrade(&parked), handle: SteelVal::Void }];\n    let mut s = Synchronizer { threads: Arc::new(Mutex(RefCell::new(list))), ctx: me.clone() };\n    let mut m = MarkAndSweepContext { seen: 0, visits: 0 };\n    unsafe { s.enumerate_stacks(&mut m) };\n    core::mem::forget(parked);\n    assert!(m.seen == 0, \"canary: must be reported as failing\");\n}\n")
    specs = [dict(name=n, kind=o["kind"], contract=o["contract"], functions=o["functions"], bound=o.get("bound")) for n, o in OBS.items()]
    specs.append(dict(name="canary_must_fail", kind="canary", contract="assert that must fail"))
    obs, cmd, out = kani.run_harnesses(crate, specs, NAME, "estk", jobs=3, timeout=2000, harness_timeout="15m", extra_flags=["--no-assertion-reach-checks"])
    kani.attach_counterexamples(obs, crate, "estk", out)
    return obs, meta, cmd
