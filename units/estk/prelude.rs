// Unit `estk` prelude (TRUSTED, hand written): the types the verbatim text of `Synchronizer::enumerate_stacks`
// (steel_vm/vm.rs: the roots of the OTHER threads for a collection) mentions.
//  * the marker context is a GHOST RECORDER (which values it is handed; `visit` counts calls)
//  * AtomicCell as a plain cell, Mutex as a cell (lock().unwrap() / try_lock()), std Arc / Weak as they are
//  * thread handles as custom values with a downcast (as in unit stw); SteelVal reduced
#![allow(dead_code, unused_imports, unused_variables)]
pub use std::sync::Arc;
use core::cell::{Cell, Ref, RefCell, RefMut};

pub mod log {
    macro_rules! debug {
        ($($t:tt)*) => {};
    }
    pub(crate) use debug;
}

#[derive(Default, Debug)]
pub struct AtomicCell<T: Copy>(Cell<T>);
impl<T: Copy> AtomicCell<T> {
    pub fn new(v: T) -> Self {
        AtomicCell(Cell::new(v))
    }
    pub fn load(&self) -> T {
        self.0.get()
    }
    pub fn store(&self, v: T) {
        self.0.set(v)
    }
}
pub struct Mutex<T>(pub RefCell<T>);
impl<T> Mutex<T> {
    pub fn lock(&self) -> core::result::Result<RefMut<'_, T>, ()> {
        Ok(self.0.borrow_mut())
    }
    pub fn try_lock(&self) -> core::result::Result<RefMut<'_, T>, ()> {
        self.0.try_borrow_mut().map_err(|_| ())
    }
}

#[derive(Clone, Copy, PartialEq, Debug)]
pub enum SteelValRepr {
    Leaf,
    Ref(u32),
}
pub enum SteelVal {
    Void,
    Ref(u32),
    Custom(&'static CustomCell),
}
impl Clone for SteelVal {
    fn clone(&self) -> Self {
        match self {
            SteelVal::Void => SteelVal::Void,
            SteelVal::Ref(i) => SteelVal::Ref(*i),
            SteelVal::Custom(c) => SteelVal::Custom(c),
        }
    }
}
pub struct ByteCodeLambda {
    pub caps: Vec<SteelVal>,
}
impl ByteCodeLambda {
    pub fn captures(&self) -> &[SteelVal] {
        &self.caps
    }
}
pub struct StackFrame {
    pub function: &'static ByteCodeLambda,
}
pub struct SteelThread {
    pub stack: Vec<SteelVal>,
    pub stack_frames: Vec<StackFrame>,
    pub current_frame: StackFrame,
    pub thread_local_storage: Vec<SteelVal>,
}
pub struct MarkAndSweepContext {
    pub seen: u64,
    pub visits: u32,
}
impl MarkAndSweepContext {
    pub fn push_back(&mut self, v: SteelVal) {
        if let SteelVal::Ref(i) = v {
            if i < 64 {
                self.seen |= 1u64 << i;
            }
        }
    }
    pub fn visit(&mut self) {
        self.visits += 1;
    }
}
pub struct ThreadHandle {
    pub forked_thread_handle: Option<std::sync::Weak<Mutex<SteelThread>>>,
}
pub trait CustomType {
    fn handle(&self) -> Option<&ThreadHandle>;
}
impl CustomType for ThreadHandle {
    fn handle(&self) -> Option<&ThreadHandle> {
        Some(self)
    }
}
pub trait Downcast {
    fn from(c: &dyn CustomType) -> Option<&Self>;
}
impl Downcast for ThreadHandle {
    fn from(c: &dyn CustomType) -> Option<&Self> {
        c.handle()
    }
}
pub fn as_underlying_type<T: Downcast>(c: &dyn CustomType) -> Option<&T> {
    T::from(c)
}
pub struct CustomCell(pub RefCell<Box<dyn CustomType>>);
impl CustomCell {
    pub fn read(&self) -> Ref<'_, Box<dyn CustomType>> {
        self.0.borrow()
    }
}
pub struct ThreadContext {
    pub ctx: std::sync::Weak<AtomicCell<Option<*mut SteelThread>>>,
    pub handle: SteelVal,
}
pub struct Synchronizer {
    pub threads: Arc<Mutex<Vec<ThreadContext>>>,
    pub ctx: Arc<AtomicCell<Option<*mut SteelThread>>>,
}
