// Environment prelude of unit `regfn` (C20, engine E2): what the two wrapper-generating macros of
// steel_vm/register_fn.rs mention. HAND-WRITTEN AND TRUSTED. The macros themselves and their
// invocation lines are copied verbatim and expanded by rustc, not by this framework.
#![allow(dead_code, unused_imports, unused_variables, unused_macros)]
pub use core::marker::PhantomData;
pub use std::sync::Arc;
use core::cell::{RefCell, RefMut, Ref};
use std::rc::Rc;

#[derive(Clone, Copy, Debug, PartialEq, Eq)]
pub enum ErrorKind {
    ArityMismatch,
    TypeMismatch,
    ConversionError,
    Generic,
}
#[derive(Clone, Copy, Debug, PartialEq, Eq)]
pub struct SteelErr {
    pub kind: ErrorKind,
}
impl SteelErr {
    pub fn prepend_message(&mut self, _m: &str) {}
}
pub type Result<T> = core::result::Result<T, SteelErr>;
macro_rules! stop {
    ($type:ident => $($rest:tt)+) => {
        return Err($crate::prelude::SteelErr { kind: $crate::prelude::ErrorKind::$type })
    };
}
pub(crate) use stop;

pub struct Gc<T>(pub Box<T>);
impl<T> Gc<T> {
    pub fn new(v: T) -> Self {
        Gc(Box::new(v))
    }
}

pub type DynFn = Arc<dyn Fn(&[SteelVal]) -> Result<SteelVal> + Send + Sync + 'static>;
pub struct BoxedDynFunction {
    pub function: DynFn,
    pub arity: Option<u32>,
}
impl BoxedDynFunction {
    pub fn new(function: DynFn, _name: Option<&str>, arity: Option<u32>) -> Self {
        BoxedDynFunction { function, arity }
    }
    pub fn new_owned(function: DynFn, _name: Option<Arc<String>>, arity: Option<u32>) -> Self {
        BoxedDynFunction { function, arity }
    }
}

/// the one host type the harness registers methods on
pub struct Counter {
    pub hits: isize,
}
unsafe impl Send for SteelVal {}
unsafe impl Sync for SteelVal {}

pub enum SteelVal {
    Void,
    IntV(isize),
    BoolV(bool),
    BoxedFunction(Gc<BoxedDynFunction>),
    FutureFunc(AsyncFn),
    Custom(Rc<RefCell<Counter>>),
}

pub trait FromSteelVal: Sized {
    fn from_steelval(v: &SteelVal) -> Result<Self>;
}
pub trait IntoSteelVal: Sized {
    fn into_steelval(self) -> Result<SteelVal>;
}
impl FromSteelVal for isize {
    fn from_steelval(v: &SteelVal) -> Result<Self> {
        match v {
            SteelVal::IntV(i) => Ok(*i),
            _ => Err(SteelErr { kind: ErrorKind::ConversionError }),
        }
    }
}
impl IntoSteelVal for isize {
    fn into_steelval(self) -> Result<SteelVal> {
        Ok(SteelVal::IntV(self))
    }
}
impl IntoSteelVal for () {
    fn into_steelval(self) -> Result<SteelVal> {
        Ok(SteelVal::Void)
    }
}

// ---- borrowed-self machinery (rvals.rs), reduced to the guards' Deref behaviour
pub struct SRef<'b, T>(pub Ref<'b, T>);
impl<'b, T> core::ops::Deref for SRef<'b, T> {
    type Target = T;
    fn deref(&self) -> &T {
        &self.0
    }
}
pub struct MappedScopedWriteContainer<'b, T>(pub RefMut<'b, T>);
impl<'b, T> core::ops::Deref for MappedScopedWriteContainer<'b, T> {
    type Target = T;
    fn deref(&self) -> &T {
        &self.0
    }
}
impl<'b, T> core::ops::DerefMut for MappedScopedWriteContainer<'b, T> {
    fn deref_mut(&mut self) -> &mut T {
        &mut self.0
    }
}
pub struct TemporaryMutableView<T>(pub *mut T);
impl<T> TemporaryMutableView<T> {
    pub fn as_mut(&mut self) -> &mut T {
        unsafe { &mut *self.0 }
    }
}
pub trait AsRefSteelVal: Sized {
    type Nursery: Default;
    fn as_ref<'b, 'a: 'b>(val: &'a SteelVal) -> Result<SRef<'b, Self>>;
}
pub trait AsRefMutSteelVal: Sized {
    fn as_mut_ref<'b, 'a: 'b>(val: &'a SteelVal) -> Result<MappedScopedWriteContainer<'b, Self>>;
}
pub trait AsRefMutSteelValFromRef: Sized {
    fn as_mut_ref_from_ref(val: &SteelVal) -> Result<TemporaryMutableView<Self>>;
}
impl AsRefSteelVal for Counter {
    type Nursery = ();
    fn as_ref<'b, 'a: 'b>(val: &'a SteelVal) -> Result<SRef<'b, Self>> {
        match val {
            SteelVal::Custom(c) => Ok(SRef(c.borrow())),
            _ => Err(SteelErr { kind: ErrorKind::TypeMismatch }),
        }
    }
}
impl AsRefMutSteelVal for Counter {
    fn as_mut_ref<'b, 'a: 'b>(val: &'a SteelVal) -> Result<MappedScopedWriteContainer<'b, Self>> {
        match val {
            SteelVal::Custom(c) => Ok(MappedScopedWriteContainer(c.borrow_mut())),
            _ => Err(SteelErr { kind: ErrorKind::TypeMismatch }),
        }
    }
}

// ---- registration targets
pub trait RegisterFn<FN, ARGS, RET> {
    fn register_fn(&mut self, name: &'static str, func: FN) -> &mut Self;
    fn register_owned_fn(&mut self, name: String, func: FN) -> &mut Self {
        self
    }
    fn register_fn_with_ctx(&mut self, ctx: &'static str, name: &'static str, func: FN) -> &mut Self;
}
pub trait SendSyncStatic: Send + Sync + 'static {}
impl<T: Send + Sync + 'static> SendSyncStatic for T {}
pub struct Wrapper<ARGS>(PhantomData<ARGS>);
pub struct MarkerWrapper3<ARGS>(PhantomData<ARGS>);
pub struct MarkerWrapper4<ARGS>(PhantomData<ARGS>);
pub struct MarkerWrapper5<ARGS>(PhantomData<ARGS>);

pub trait RegisterValue {
    fn register_value_inner(&mut self, name: &str, value: SteelVal) -> &mut Self;
    fn supply_context_arg(&mut self, ctx: &'static str, name: &str);
}
#[derive(Default)]
pub struct Engine {
    pub last: Option<SteelVal>,
}
#[derive(Default)]
pub struct BuiltInModule {
    pub last: Option<SteelVal>,
}
impl Engine {
    pub fn register_value(&mut self, _name: &str, value: SteelVal) -> &mut Self {
        self.last = Some(value);
        self
    }
    pub fn supply_context_arg(&mut self, _ctx: &'static str, _name: &str) {}
}
impl BuiltInModule {
    pub fn register_value(&mut self, _name: &str, value: SteelVal) -> &mut Self {
        self.last = Some(value);
        self
    }
    pub fn supply_context_arg(&mut self, _ctx: &'static str, _name: &str) {}
}
/// a registration target for the `for T: RegisterValue` impls
#[derive(Default)]
pub struct Registry {
    pub last: Option<SteelVal>,
}
impl RegisterValue for Registry {
    fn register_value_inner(&mut self, _name: &str, value: SteelVal) -> &mut Self {
        self.last = Some(value);
        self
    }
    fn supply_context_arg(&mut self, _ctx: &'static str, _name: &str) {}
}

// ---- async wrappers: only enough for the macro text to type-check (not exercised by the harness,
// except that their arity check is the same text)
pub use core::future::Future;
pub use std::sync::Arc as Shared;
pub struct AsyncWrapper<ARGS>(PhantomData<ARGS>);
pub struct FutureResult(pub core::pin::Pin<Box<dyn Future<Output = Result<SteelVal>>>>);
impl FutureResult {
    pub fn new(f: core::pin::Pin<Box<dyn Future<Output = Result<SteelVal>>>>) -> Self {
        FutureResult(f)
    }
}
pub type AsyncFn = Shared<Box<dyn Fn(&[SteelVal]) -> Result<FutureResult> + Send + Sync + 'static>>;
/// futures_util::FutureExt::map, reduced
pub trait FutureMapExt: Future + Sized {
    fn map<U, F: FnOnce(Self::Output) -> U>(self, f: F) -> MapFut<Self, F> {
        MapFut { fut: self, f: Some(f) }
    }
}
impl<T: Future> FutureMapExt for T {}
pub struct MapFut<Fut, F> {
    fut: Fut,
    f: Option<F>,
}
impl<Fut: Future, U, F: FnOnce(Fut::Output) -> U> Future for MapFut<Fut, F> {
    type Output = U;
    fn poll(self: core::pin::Pin<&mut Self>, cx: &mut core::task::Context<'_>) -> core::task::Poll<U> {
        let this = unsafe { self.get_unchecked_mut() };
        let fut = unsafe { core::pin::Pin::new_unchecked(&mut this.fut) };
        match fut.poll(cx) {
            core::task::Poll::Ready(v) => core::task::Poll::Ready((this.f.take().unwrap())(v)),
            core::task::Poll::Pending => core::task::Poll::Pending,
        }
    }
}
