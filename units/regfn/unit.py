"""Unit `regfn` (C20, engine E2): the macro-generated host-function wrappers of steel_vm/register_fn.rs."""
import os
import re
import shutil

from vlib.common import REPO, VERIF, AnchorLost, read, write, sha256, scan_assumptions
from vlib.extract import Extractor
from vlib import kani

NAME = "regfn"
RF = "crates/steel-core/src/steel_vm/register_fn.rs"


def build(scratch):
    ex = Extractor()
    m1 = ex.item(RF, "macro_rules!", "impl_register_fn")
    m2 = ex.item(RF, "macro_rules!", "impl_register_fn_self")
    inv1 = ex.macro_invocations(RF, "impl_register_fn")
    inv2 = ex.macro_invocations(RF, "impl_register_fn_self")
    if len(inv1) < 3 or len(inv2) < 3:
        raise AnchorLost("register_fn macro invocations not found")
    lines = [f"impl_register_fn!({a});" for a in inv1] + [f"impl_register_fn_self!({a});" for a in inv2]
    for l, rel in [(inv1, "impl_register_fn"), (inv2, "impl_register_fn_self")]:
        for a in l:
            ex._record(RF, "macro-invocation", f"{rel}!({a})", 0, 0, a, ["verbatim"])
    text = m1 + "\n\n" + m2 + "\n\n" + "\n".join(lines) + "\n"
    crate = os.path.join(scratch, "regfnx")
    os.makedirs(os.path.join(crate, "src"))
    shutil.copy(os.path.join(REPO, "Cargo.lock"), os.path.join(crate, "Cargo.lock"))
    write(os.path.join(crate, "Cargo.toml"), "[package]\nname = \"regfnx\"\nversion = \"0.0.0\"\nedition = \"2021\"\n\n[dependencies]\n\n[workspace]\n\n[lints.rust]\nunexpected_cfgs = { level = \"allow\", check-cfg = ['cfg(kani)'] }\n")
    prelude = read(os.path.join(VERIF, "units/regfn/prelude.rs"))
    harness = read(os.path.join(VERIF, "units/regfn/harness.rs"))
    write(os.path.join(crate, "src/prelude.rs"), prelude)
    write(os.path.join(crate, "src/x_register_fn.rs"), "#![allow(dead_code, unused_imports, unused_variables, unused_mut)]\nuse crate::prelude::*;\nuse crate::prelude::stop;\n\n" + text
          + "\n#[cfg(kani)]\n#[path = \"harness.rs\"]\nmod harness;\n")
    write(os.path.join(crate, "src/harness.rs"), harness)
    write(os.path.join(crate, "src/lib.rs"), "#![allow(dead_code, unused_imports, unused_macros)]\n#[macro_use]\npub mod prelude;\npub mod x_register_fn;\n")
    meta = {"unit": NAME, "engine": "E2: verbatim extraction (two macro_rules! definitions + every invocation line) into a mini crate + Kani", "items": ex.items,
            "prelude": "units/regfn/prelude.rs", "prelude_sha256": sha256(prelude), "harness_sha256": sha256(harness),
            "extractor_edits": "none inside the macros; they are expanded by rustc against the prelude's traits",
            "assumption_scan": scan_assumptions(harness, "units/regfn/harness.rs") + scan_assumptions(prelude, "units/regfn/prelude.rs")}
    return crate, meta


C = "the wrapper invokes the host function iff exactly the declared number of arguments is supplied, with parameter k taken from argument k (declared order and types); too few or too many arguments => ArityMismatch and the host function is NOT invoked; a mistyped argument => error, not invoked"
OBS = {
    "plain_fn_arity_1": dict(kind="proof", functions=["impl_register_fn!(1 => ..) for Engine"], contract=C),
    "plain_fn_arity_3": dict(kind="proof", functions=["impl_register_fn!(3 => ..) for Engine / BuiltInModule"], contract=C),
    "plain_fn_arity_16_argument_order": dict(kind="proof", functions=["impl_register_fn!(16 => ..)"], contract="16 parameters: parameter k receives argument k for every k"),
    "method_ref_self_arity_2": dict(kind="proof", functions=["impl_register_fn_self!(2 => ..) Fn(&SELF, ..)"], contract=C),
    "method_mut_self_arity_3": dict(kind="proof", functions=["impl_register_fn_self!(3 => ..) Fn(&mut SELF, ..)"], contract=C),
    "method_mut_self_arity_16_argument_order": dict(kind="proof", functions=["impl_register_fn_self!(16 => ..)"], contract="&mut self + 15 parameters: parameter k receives argument k"),
}


def run_unit(scratch, tier):
    crate, meta = build(scratch)
    p = os.path.join(crate, "src/harness.rs")
    write(p, read(p) + "\n#[kani::proof]\n#[kani::unwind(4)]\nfn canary_must_fail() {\n    let mut e = Engine::default();\n    e.register_fn(\"f\", |a: isize| a);\n    let r = call(&e.last, &[SteelVal::IntV(1)]);\n    assert!(r.is_err(), \"canary: must be reported as failing\");\n}\n")
    specs = [dict(name=n, kind=o["kind"], contract=o["contract"], functions=o["functions"], bound=o.get("bound")) for n, o in OBS.items()]
    specs.append(dict(name="canary_must_fail", kind="canary", contract="assert that must fail"))
    obs, cmd, out = kani.run_harnesses(crate, specs, NAME, "regfn", jobs=6, timeout=3000, harness_timeout="10m", extra_flags=["--no-assertion-reach-checks"])
    kani.attach_counterexamples(obs, crate, "regfn", out)
    return obs, meta, cmd
