// Contract harnesses for the macro-generated host-function wrappers (child of x_register_fn; unit `regfn`, C20)
#![allow(unused_imports, dead_code, static_mut_refs)]
use super::*;
use crate::prelude::*;
use core::cell::RefCell;
use std::rc::Rc;

static mut CALLS: u32 = 0;
static mut GOT: [isize; 16] = [0; 16];

fn reset() {
    unsafe {
        CALLS = 0;
        GOT = [0; 16];
    }
}

fn call(f: &Option<SteelVal>, args: &[SteelVal]) -> Result<SteelVal> {
    match f {
        Some(SteelVal::BoxedFunction(b)) => (b.0.function)(args),
        _ => Err(SteelErr { kind: ErrorKind::Generic }),
    }
}

fn is_kind(r: &Result<SteelVal>, k: ErrorKind) -> bool {
    matches!(r, Err(e) if e.kind == k)
}

#[kani::proof]
#[kani::unwind(4)]
fn plain_fn_arity_1() {
    reset();
    let mut e = Engine::default();
    e.register_fn("f", |a: isize| unsafe {
        CALLS += 1;
        GOT[0] = a;
    });
    let x: isize = kani::any();
    assert!(call(&e.last, &[SteelVal::IntV(x)]).is_ok());
    unsafe { assert!(CALLS == 1 && GOT[0] == x) };
    reset();
    assert!(is_kind(&call(&e.last, &[]), ErrorKind::ArityMismatch));
    assert!(is_kind(&call(&e.last, &[SteelVal::IntV(x), SteelVal::IntV(x)]), ErrorKind::ArityMismatch));
    assert!(call(&e.last, &[SteelVal::Void]).is_err());
    unsafe { assert!(CALLS == 0, "the host function ran with a wrong number / type of arguments") };
}

#[kani::proof]
#[kani::unwind(6)]
fn plain_fn_arity_3() {
    reset();
    let mut m = BuiltInModule::default();
    m.register_fn("f", |a: isize, b: isize, c: isize| unsafe {
        CALLS += 1;
        GOT[0] = a;
        GOT[1] = b;
        GOT[2] = c;
    });
    let (x, y, z): (isize, isize, isize) = (kani::any(), kani::any(), kani::any());
    assert!(call(&m.last, &[SteelVal::IntV(x), SteelVal::IntV(y), SteelVal::IntV(z)]).is_ok());
    unsafe { assert!(CALLS == 1 && GOT[0] == x && GOT[1] == y && GOT[2] == z, "arguments reach the host function in the declared order") };
    reset();
    assert!(is_kind(&call(&m.last, &[SteelVal::IntV(x), SteelVal::IntV(y)]), ErrorKind::ArityMismatch));
    assert!(is_kind(&call(&m.last, &[SteelVal::IntV(x), SteelVal::IntV(y), SteelVal::IntV(z), SteelVal::IntV(z)]), ErrorKind::ArityMismatch));
    assert!(call(&m.last, &[SteelVal::IntV(x), SteelVal::BoolV(true), SteelVal::IntV(z)]).is_err());
    unsafe { assert!(CALLS == 0, "the host function ran with a wrong number / type of arguments") };
}

fn sixteen() -> Vec<SteelVal> {
    let mut v = Vec::new();
    let mut i = 0;
    while i < 16 {
        v.push(SteelVal::IntV(100 + i as isize));
        i += 1;
    }
    v
}

#[kani::proof]
#[kani::unwind(18)]
fn plain_fn_arity_16_argument_order() {
    reset();
    let mut e = Engine::default();
    e.register_fn(
        "f",
        |a: isize, b: isize, c: isize, d: isize, e_: isize, f: isize, g: isize, h: isize, i: isize, j: isize, k: isize, l: isize, m: isize, n: isize, o: isize, p: isize| unsafe {
            CALLS += 1;
            GOT = [a, b, c, d, e_, f, g, h, i, j, k, l, m, n, o, p];
        },
    );
    let args = sixteen();
    assert!(call(&e.last, &args).is_ok());
    unsafe {
        assert!(CALLS == 1);
        let mut q = 0;
        while q < 16 {
            assert!(GOT[q] == 100 + q as isize, "a parameter received another parameter's argument");
            q += 1;
        }
    }
    reset();
    assert!(is_kind(&call(&e.last, &args[..15]), ErrorKind::ArityMismatch));
    unsafe { assert!(CALLS == 0) };
}

fn counter() -> (Rc<RefCell<Counter>>, SteelVal) {
    let c = Rc::new(RefCell::new(Counter { hits: 0 }));
    (c.clone(), SteelVal::Custom(c))
}

#[kani::proof]
#[kani::unwind(5)]
fn method_ref_self_arity_2() {
    reset();
    let mut r = Registry::default();
    RegisterFn::<_, MarkerWrapper3<(Counter, isize)>, isize>::register_fn(&mut r, "get", |s: &Counter, a: isize| unsafe {
        CALLS += 1;
        GOT[0] = a;
        s.hits
    });
    let (_c, me) = counter();
    let x: isize = kani::any();
    assert!(call(&r.last, &[me, SteelVal::IntV(x)]).is_ok());
    unsafe { assert!(CALLS == 1 && GOT[0] == x) };
    reset();
    let (_c2, me2) = counter();
    assert!(is_kind(&call(&r.last, &[me2]), ErrorKind::ArityMismatch));
    let (_c3, me3) = counter();
    assert!(is_kind(&call(&r.last, &[me3, SteelVal::IntV(x), SteelVal::IntV(x)]), ErrorKind::ArityMismatch), "surplus arguments must be rejected, not dropped");
    unsafe { assert!(CALLS == 0) };
}

#[kani::proof]
#[kani::unwind(6)]
fn method_mut_self_arity_3() {
    reset();
    let mut r = Registry::default();
    RegisterFn::<_, MarkerWrapper4<(Counter, isize, isize)>, ()>::register_fn(&mut r, "add!", |s: &mut Counter, a: isize, b: isize| unsafe {
        CALLS += 1;
        GOT[0] = a;
        GOT[1] = b;
        s.hits = a;
    });
    let (c, me) = counter();
    let (x, y): (isize, isize) = (kani::any(), kani::any());
    assert!(call(&r.last, &[me, SteelVal::IntV(x), SteelVal::IntV(y)]).is_ok());
    unsafe { assert!(CALLS == 1 && GOT[0] == x && GOT[1] == y) };
    assert!(c.borrow().hits == x);
    reset();
    let (c2, me2) = counter();
    assert!(is_kind(&call(&r.last, &[me2, SteelVal::IntV(x)]), ErrorKind::ArityMismatch));
    let (c3, me3) = counter();
    assert!(is_kind(&call(&r.last, &[me3, SteelVal::IntV(x), SteelVal::IntV(y), SteelVal::IntV(y)]), ErrorKind::ArityMismatch), "surplus arguments must be rejected, not dropped");
    unsafe { assert!(CALLS == 0, "a method ran although the call had the wrong number of arguments") };
    assert!(c2.borrow().hits == 0 && c3.borrow().hits == 0);
}

#[kani::proof]
#[kani::unwind(18)]
fn method_mut_self_arity_16_argument_order() {
    reset();
    let mut r = Registry::default();
    RegisterFn::<_, MarkerWrapper4<(Counter, isize, isize, isize, isize, isize, isize, isize, isize, isize, isize, isize, isize, isize, isize, isize)>, ()>::register_fn(
        &mut r,
        "m",
        |s: &mut Counter, b: isize, c: isize, d: isize, e_: isize, f: isize, g: isize, h: isize, i: isize, j: isize, k: isize, l: isize, m: isize, n: isize, o: isize, p: isize| unsafe {
            CALLS += 1;
            GOT = [0, b, c, d, e_, f, g, h, i, j, k, l, m, n, o, p];
        },
    );
    let (_c, me) = counter();
    let mut args = sixteen();
    args[0] = me;
    assert!(call(&r.last, &args).is_ok());
    unsafe {
        assert!(CALLS == 1);
        let mut q = 1;
        while q < 16 {
            assert!(GOT[q] == 100 + q as isize, "a parameter received another parameter's argument");
            q += 1;
        }
    }
}
