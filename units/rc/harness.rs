// Contract harnesses for the REAL crates/steel-rc/src/lib.rs (engine E1).
// This text is appended to a scratch copy of the real lib.rs as `#[cfg(kani)] mod verif_rc { .. }`,
// so every private item of the crate is visible and nothing of the crate is restated.
//
// Ghost state (DESIGN.md, C05):
//   refs_me / refs_others  number of live BiasedRc handles held by this thread / by all others
//   pending                an entry for the object sits in the owner's merge queue (set by the
//                          slow_decrement whose CAS flips `queued`, cleared by the explicit merge)
// Abstract count  A = if merged { shared.counter } else { biased + shared.counter }
// Invariant I:    A == refs_me + refs_others
//                 tid == None            ==> merged
//                 tid == Some(me)        ==> !merged && biased >= 1      (owner's own view)
//                 counter < 0            ==> queued
//                 queued && !merged      ==> pending
//                 pending                ==> queued && !merged
// Every operation is proved to re-establish I at its linearisation point (the successful
// compare_exchange, or the Cell write for owner-local steps) starting from ANY state satisfying
// I, with other threads' steps (anything that preserves I and is allowed to them) injected
// between this thread's load and its compare_exchange.
use super::*;

impl kani::Arbitrary for Packed {
    fn any() -> Self {
        Packed(kani::any())
    }
}

const CMAX: i64 = (1 << 29) - 2;

#[derive(Clone, Copy, PartialEq, Eq)]
enum Op {
    NoCas,
    SlowInc,
    SlowDec,
    FastDecMerge,
    Unique,
    Unwrap,
    QueueMerge,
}

struct Ghost {
    rc: *const RcWord,
    me_owner: bool,
    mid_owner_op: bool,
    lazy_dec: bool,
    refs_me: i64,
    refs_others: i64,
    pending: bool,
    op: Op,
    budget: u8,
    cas_ok: u8,
    cas_fail: u8,
    my_flip: bool,
    a_at_cas: i64,
    refs_at_cas: i64,
    pending_at_cas: bool,
    enqueued: u8,
}

static mut G: Ghost = Ghost {
    rc: core::ptr::null(),
    me_owner: false,
    mid_owner_op: false,
    lazy_dec: false,
    refs_me: 0,
    refs_others: 0,
    pending: false,
    op: Op::NoCas,
    budget: 0,
    cas_ok: 0,
    cas_fail: 0,
    my_flip: false,
    a_at_cas: 0,
    refs_at_cas: 0,
    pending_at_cas: false,
    enqueued: 0,
};

fn me() -> ThreadId {
    ThreadId::current_thread()
}

fn any_other_tid() -> ThreadId {
    let k: usize = kani::any();
    kani::assume(k != 0 && k != usize::MAX && k != me().0.get());
    ThreadId::new(NonZeroUsize::new(k).unwrap())
}

fn raw(rc: &RcWord) -> Packed {
    Packed(rc.shared.0.load(Ordering::SeqCst))
}

fn abs_count(rc: &RcWord) -> i64 {
    let w = raw(rc);
    if w.is_merged() {
        w.value() as i64
    } else {
        rc.biased_counter.get() as i64 + w.value() as i64
    }
}

unsafe fn inv(rc: &RcWord) -> bool {
    let w = raw(rc);
    let tid = rc.thread_id.get();
    let i_am_owner = tid == Some(me());
    abs_count(rc) == G.refs_me + G.refs_others
        && G.refs_me >= 0
        && G.refs_others >= 0
        && (tid.is_some() || w.is_merged())
        && (!i_am_owner || G.mid_owner_op || (!w.is_merged() && rc.biased_counter.get() >= 1))
        && (w.value() >= 0 || w.is_queued())
        && (!w.is_queued() || w.is_merged() || G.pending)
        && (!G.pending || (w.is_queued() && !w.is_merged()))
}

unsafe fn bounds(rc: &RcWord) -> bool {
    let w = raw(rc);
    let c = w.value() as i64;
    c >= -CMAX && c <= CMAX && (rc.biased_counter.get() as i64) <= CMAX && G.refs_me + G.refs_others <= CMAX
}

/// Make the count word fully symbolic and reset the ghost state.
/// owner selector: 0 = this thread owns, 1 = another thread owns, 2 = no owner (merged)
unsafe fn init_word(rc: &RcWord) {
    let sel: u8 = kani::any();
    kani::assume(sel < 3);
    let tid = match sel {
        0 => Some(me()),
        1 => Some(any_other_tid()),
        _ => None,
    };
    rc.thread_id.set(tid);
    rc.biased_counter.set(kani::any());
    rc.shared.0.store(kani::any(), Ordering::SeqCst);
    G.refs_me = kani::any();
    G.refs_others = kani::any();
    kani::assume(G.refs_me >= 0 && G.refs_me <= CMAX && G.refs_others >= 0 && G.refs_others <= CMAX);
    G.pending = kani::any();
    G.me_owner = sel == 0;
    G.mid_owner_op = false;
    G.lazy_dec = false;
    G.op = Op::NoCas;
    G.budget = 0;
    G.cas_ok = 0;
    G.cas_fail = 0;
    G.my_flip = false;
    G.enqueued = 0;
    G.rc = rc as *const RcWord;
    kani::assume(inv(rc) && bounds(rc));
}

/// A stack-allocated box with a fully symbolic count word + ghost state satisfying I.
unsafe fn any_state(data: u8) -> RcBox<u8> {
    RcBox {
        rcword: RcWord {
            thread_id: Cell::new(None),
            biased_counter: Cell::new(0),
            shared: SharedPacked(AtomicU32::new(0)),
        },
        data,
    }
}

unsafe fn attach(rb: &RcBox<u8>) {
    init_word(&rb.rcword);
}

/// Rely: what other threads may do between two of this thread's atomic steps.
unsafe fn interfere() {
    let rc = &*G.rc;
    let w = raw(rc);
    if G.me_owner {
        // other threads can only go through the shared word: slow increments/decrements of
        // handles they hold; tid, biased and the merged flag belong to this thread.
        let d: i64 = kani::any();
        kani::assume(d >= -CMAX && d <= CMAX);
        kani::assume(G.refs_others + d >= 0 && G.refs_me + G.refs_others + d <= CMAX);
        let c2 = w.value() as i64 + d;
        kani::assume(c2 >= -CMAX && c2 <= CMAX);
        let can_dip = (w.value() as i64) - G.refs_others < 0;
        let mut n = w;
        n.set_value(c2 as i32);
        let set_q: bool = kani::any();
        if !w.is_queued() && can_dip && (set_q || c2 < 0) {
            n.set_queued(true);
            G.pending = true;
        }
        kani::assume(c2 >= 0 || n.is_queued());
        rc.shared.0.store(n.0, Ordering::SeqCst);
        G.refs_others += d;
    } else {
        // the owner (if any) and every other non-owner may do anything that keeps I,
        // with the monotone facts: merged and queued are never cleared, an owner is never
        // installed, this thread never becomes the owner.
        let old_tid = rc.thread_id.get();
        let nw: u32 = kani::any();
        let nb: u32 = kani::any();
        let drop_tid: bool = kani::any();
        let np = Packed(nw);
        kani::assume(!w.is_merged() || np.is_merged());
        kani::assume(!w.is_queued() || np.is_queued());
        rc.shared.0.store(nw, Ordering::SeqCst);
        rc.biased_counter.set(nb);
        if drop_tid {
            rc.thread_id.set(None);
        } else {
            rc.thread_id.set(old_tid);
        }
        G.refs_others = kani::any();
        kani::assume(G.refs_others >= 0 && G.refs_others <= CMAX);
        G.pending = kani::any();
        kani::assume(inv(rc) && bounds(rc));
    }
}

// ---- stubs for the only two functions through which the shared word is read-modify-written ----

pub(crate) fn cas_stub(
    this: &SharedPacked,
    current: Packed,
    new: Packed,
    _success: Ordering,
    _failure: Ordering,
) -> Result<u32, u32> {
    unsafe {
        if G.budget > 0 {
            let go: bool = kani::any();
            if go {
                G.budget -= 1;
                interfere();
            }
        }
        let cur = this.0.load(Ordering::SeqCst);
        if cur == current.0 {
            this.0.store(new.0, Ordering::SeqCst);
            match G.op {
                Op::SlowInc => G.refs_me += 1,
                Op::SlowDec => {
                    G.refs_me -= 1;
                    if !current.is_queued() && new.is_queued() {
                        G.pending = true;
                        G.my_flip = true;
                    }
                }
                Op::Unwrap => G.refs_me -= 1,
                Op::QueueMerge => G.pending = false,
                Op::FastDecMerge => {
                    // the owner's decrement was linearised at its private counter write
                    if G.lazy_dec {
                        G.refs_me -= 1;
                        G.lazy_dec = false;
                    }
                }
                Op::Unique | Op::NoCas => {}
            }
            G.cas_ok += 1;
            let rc = &*G.rc;
            G.a_at_cas = abs_count(rc);
            G.refs_at_cas = G.refs_me + G.refs_others;
            G.pending_at_cas = G.pending;
            assert!(G.op != Op::NoCas, "this operation must not write the shared word");
            assert!(inv(rc), "C05 invariant I re-established at the linearising compare_exchange");
            Ok(cur)
        } else {
            G.cas_fail += 1;
            Err(cur)
        }
    }
}

// ------------------------------------------------------------------------------------------
// Packed bit-field contracts (function contracts are injected in place, see unit.py)
// ------------------------------------------------------------------------------------------

#[kani::proof_for_contract(Packed::set_value)]
fn packed_set_value_contract() {
    let mut p: Packed = kani::any();
    p.set_value(kani::any());
}

#[kani::proof_for_contract(Packed::value)]
fn packed_value_contract() {
    let p: Packed = kani::any();
    let _ = p.value();
}

#[kani::proof_for_contract(Packed::new_with)]
fn packed_new_with_contract() {
    let _ = Packed::new_with(kani::any(), kani::any(), kani::any());
}

#[kani::proof_for_contract(Packed::set_merged)]
fn packed_set_merged_contract() {
    let mut p: Packed = kani::any();
    p.set_merged(kani::any());
}

#[kani::proof_for_contract(Packed::set_queued)]
fn packed_set_queued_contract() {
    let mut p: Packed = kani::any();
    p.set_queued(kani::any());
}

/// value/set_value are inverse on the whole signed 30-bit range and independent of the flags;
/// the three fields of the word do not overlap.
#[kani::proof]
fn packed_roundtrip_all_words() {
    let mut p: Packed = kani::any();
    let m0 = p.is_merged();
    let q0 = p.is_queued();
    let v: i32 = kani::any();
    kani::assume(v >= -(1 << 29) && v < (1 << 29));
    p.set_value(v);
    assert!(p.value() == v);
    assert!(p.get_counter() == v);
    assert!(p.is_merged() == m0 && p.is_queued() == q0);
    let mut f = p;
    let b: bool = kani::any();
    f.set_merged(b);
    assert!(f.is_merged() == b && f.get_merged() == b && f.is_queued() == q0 && f.value() == v);
    let mut g = p;
    g.set_queued(b);
    assert!(g.is_queued() == b && g.get_queued() == b && g.is_merged() == m0 && g.value() == v);
    let mut u = p;
    kani::assume(v < (1 << 29) - 1);
    u.update_counter(|x| x + 1);
    assert!(u.value() == v + 1 && u.is_merged() == m0 && u.is_queued() == q0);
    let mut c = p;
    c.set_counter(v);
    assert!(c == p);
    kani::cover!(v < 0 && m0 && !q0);
}

#[kani::proof]
fn packed_new_is_zero_unflagged() {
    let p = Packed::new();
    assert!(p.value() == 0 && !p.is_merged() && !p.is_queued());
    let s = SharedPacked::new();
    assert!(s.0.load(Ordering::SeqCst) == p.0);
    let w = RcWord::new();
    assert!(w.thread_id.get() == Some(me()) && w.biased_counter.get() == 1 && raw(&w) == p);
}

// ------------------------------------------------------------------------------------------
// increment
// ------------------------------------------------------------------------------------------

/// fast_increment (owner): A' == A + 1, the shared word, flags and owner are untouched.
#[kani::proof]
fn fast_increment_contract() {
    unsafe {
        let rb = any_state(0);
        attach(&rb);
        kani::assume(G.me_owner && G.refs_me >= 1);
        let w0 = raw(&rb.rcword);
        let b0 = rb.rcword.biased_counter.get();
        rb.fast_increment();
        G.refs_me += 1;
        assert!(inv(&rb.rcword));
        assert!(raw(&rb.rcword) == w0 && rb.rcword.thread_id.get() == Some(me()));
        assert!(rb.rcword.biased_counter.get() == b0 + 1);
        kani::cover!(true);
    }
}

/// slow_increment, no interference: functional postcondition + frame.
#[kani::proof]
#[kani::stub(SharedPacked::compare_exchange, cas_stub)]
#[kani::unwind(3)]
fn slow_increment_seq_contract() {
    unsafe {
        let rb = any_state(0);
        attach(&rb);
        kani::assume(!G.me_owner && G.refs_me >= 1);
        let w0 = raw(&rb.rcword);
        let b0 = rb.rcword.biased_counter.get();
        let t0 = rb.rcword.thread_id.get();
        let a0 = abs_count(&rb.rcword);
        G.op = Op::SlowInc;
        rb.slow_increment();
        let w1 = raw(&rb.rcword);
        assert!(G.cas_ok == 1 && G.cas_fail == 0);
        assert!(abs_count(&rb.rcword) == a0 + 1);
        assert!(w1.value() == w0.value() + 1 && w1.is_merged() == w0.is_merged() && w1.is_queued() == w0.is_queued());
        // a non-owner never touches the owner's private fields
        assert!(rb.rcword.biased_counter.get() == b0 && rb.rcword.thread_id.get() == t0);
        kani::cover!(w0.is_merged());
        kani::cover!(!w0.is_merged() && w0.value() < 0);
    }
}

/// slow_increment under arbitrary interference between load and compare_exchange.
#[kani::proof]
#[kani::stub(SharedPacked::compare_exchange, cas_stub)]
#[kani::unwind(3)]
fn slow_increment_rg_contract() {
    unsafe {
        let rb = any_state(0);
        attach(&rb);
        kani::assume(!G.me_owner && G.refs_me >= 1);
        let r0 = G.refs_me;
        G.op = Op::SlowInc;
        G.budget = 1;
        rb.slow_increment();
        assert!(G.cas_ok == 1 && G.refs_me == r0 + 1);
        assert!(inv(&rb.rcword));
        kani::cover!(G.cas_fail == 1);
    }
}

/// increment dispatch: the owner takes the private path, everybody else the atomic one.
#[kani::proof]
#[kani::stub(SharedPacked::compare_exchange, cas_stub)]
#[kani::unwind(3)]
fn increment_dispatch_contract() {
    unsafe {
        let rb = any_state(0);
        attach(&rb);
        kani::assume(G.refs_me >= 1);
        let b0 = rb.rcword.biased_counter.get();
        let w0 = raw(&rb.rcword);
        G.op = Op::SlowInc;
        rb.increment();
        if G.me_owner {
            assert!(G.cas_ok == 0 && raw(&rb.rcword) == w0);
            G.refs_me += 1;
        } else {
            assert!(G.cas_ok == 1 && rb.rcword.biased_counter.get() == b0);
        }
        assert!(inv(&rb.rcword));
        kani::cover!(G.me_owner);
        kani::cover!(!G.me_owner);
    }
}

// ------------------------------------------------------------------------------------------
// decrement
// ------------------------------------------------------------------------------------------

unsafe fn check_slow_decrement_result(rb: &RcBox<u8>, r: DecrementAction) {
    let w1 = raw(&rb.rcword);
    // Queue  <=> this decrement flipped the queued flag (exactly one enqueue per object)
    assert!((r == DecrementAction::Queue) == G.my_flip);
    // Deallocate => it was the last reference of any thread and nothing is waiting in a queue
    if r == DecrementAction::Deallocate {
        assert!(G.refs_at_cas == 0 && G.a_at_cas == 0, "destroyed only after the last reference");
        assert!(!G.pending_at_cas, "destroyed while a merge-queue entry still points to it");
    }
    // ... and the last reference of a merged object does destroy it (exactly once, not never)
    if G.refs_at_cas == 0 && !G.my_flip && !G.pending_at_cas {
        assert!(r == DecrementAction::Deallocate || !w1.is_merged());
    }
}

#[kani::proof]
#[kani::stub(SharedPacked::compare_exchange, cas_stub)]
#[kani::unwind(3)]
fn slow_decrement_seq_contract() {
    unsafe {
        let rb = any_state(0);
        attach(&rb);
        kani::assume(!G.me_owner && G.refs_me >= 1);
        let w0 = raw(&rb.rcword);
        let b0 = rb.rcword.biased_counter.get();
        let t0 = rb.rcword.thread_id.get();
        let a0 = abs_count(&rb.rcword);
        G.op = Op::SlowDec;
        let r = rb.slow_decrement();
        let w1 = raw(&rb.rcword);
        assert!(G.cas_ok == 1 && G.cas_fail == 0);
        assert!(abs_count(&rb.rcword) == a0 - 1);
        assert!(w1.value() == w0.value() - 1 && w1.is_merged() == w0.is_merged());
        assert!(w1.is_queued() == (w0.is_queued() || w1.value() < 0));
        assert!(rb.rcword.biased_counter.get() == b0 && rb.rcword.thread_id.get() == t0);
        check_slow_decrement_result(&rb, r);
        kani::cover!(r == DecrementAction::Queue);
        kani::cover!(r == DecrementAction::Deallocate);
        kani::cover!(r == DecrementAction::DoNothing && w1.is_queued() && w1.is_merged());
    }
}

#[kani::proof]
#[kani::stub(SharedPacked::compare_exchange, cas_stub)]
#[kani::unwind(3)]
fn slow_decrement_rg_contract() {
    unsafe {
        let rb = any_state(0);
        attach(&rb);
        kani::assume(!G.me_owner && G.refs_me >= 1);
        let r0 = G.refs_me;
        G.op = Op::SlowDec;
        G.budget = 1;
        let r = rb.slow_decrement();
        assert!(G.cas_ok == 1 && G.refs_me == r0 - 1);
        check_slow_decrement_result(&rb, r);
        kani::cover!(G.cas_fail == 1 && r == DecrementAction::Deallocate);
        kani::cover!(G.cas_fail == 1 && r == DecrementAction::Queue);
    }
}

unsafe fn fast_decrement_body(with_pending: bool, budget: u8) {
    let rb = any_state(0);
    attach(&rb);
    kani::assume(G.me_owner && G.refs_me >= 1);
    kani::assume(G.pending == with_pending);
    let w0 = raw(&rb.rcword);
    let b0 = rb.rcword.biased_counter.get();
    // linearisation of the owner's decrement is its private counter write
    G.refs_me -= 1;
    G.mid_owner_op = true;
    G.op = Op::FastDecMerge;
    G.budget = budget;
    let r = rb.fast_decrement();
    G.mid_owner_op = false;
    let w1 = raw(&rb.rcword);
    assert!(rb.rcword.biased_counter.get() == b0 - 1);
    if b0 > 1 {
        // still biased: nothing but the private counter moves
        assert!(r == DecrementAction::DoNothing && G.cas_ok == 0);
        assert!(budget > 0 || w1 == w0);
        assert!(rb.rcword.thread_id.get() == Some(me()));
    } else {
        // last owner-side reference: counts are merged, exactly once
        assert!(G.cas_ok == 1 && w1.is_merged());
        assert!((r == DecrementAction::Deallocate) == (G.a_at_cas == 0));
        if r == DecrementAction::Deallocate {
            assert!(G.refs_at_cas == 0, "destroyed only after the last reference");
            assert!(!G.pending_at_cas, "destroyed while a merge-queue entry still points to it");
        } else {
            assert!(r == DecrementAction::DoNothing);
            assert!(rb.rcword.thread_id.get().is_none(), "object is handed over to the shared counter");
        }
        if budget == 0 {
            assert!(w1.value() == w0.value() && w1.is_queued() == w0.is_queued());
        }
    }
    if r != DecrementAction::Deallocate {
        // (after Deallocate the word is dead storage; I is a statement about live objects)
        assert!(inv(&rb.rcword));
    }
    kani::cover!(b0 > 1);
    kani::cover!(b0 == 1 && r == DecrementAction::Deallocate);
    kani::cover!(b0 == 1 && r == DecrementAction::DoNothing);
}

#[kani::proof]
#[kani::stub(SharedPacked::compare_exchange, cas_stub)]
#[kani::unwind(3)]
fn fast_decrement_seq_contract() {
    unsafe { fast_decrement_body(false, 0) }
}

#[kani::proof]
#[kani::stub(SharedPacked::compare_exchange, cas_stub)]
#[kani::unwind(3)]
fn fast_decrement_rg_contract() {
    unsafe { fast_decrement_body(false, 1) }
}

/// (b)-half of known finding C05/queue-pending: the owner merges on its own while an entry for
/// the object is still waiting in its merge queue.
#[kani::proof]
#[kani::stub(SharedPacked::compare_exchange, cas_stub)]
#[kani::unwind(3)]
fn fast_decrement_pending_entry_contract() {
    unsafe { fast_decrement_body(true, 0) }
}

#[kani::proof]
#[kani::stub(SharedPacked::compare_exchange, cas_stub)]
#[kani::unwind(3)]
fn decrement_dispatch_contract() {
    unsafe {
        let rb = any_state(0);
        attach(&rb);
        kani::assume(G.refs_me >= 1 && !G.pending);
        let b0 = rb.rcword.biased_counter.get();
        let t0 = rb.rcword.thread_id.get();
        if G.me_owner {
            G.refs_me -= 1;
            G.mid_owner_op = true;
            G.op = Op::FastDecMerge;
        } else {
            G.op = Op::SlowDec;
        }
        let r = rb.decrement();
        G.mid_owner_op = false;
        if G.me_owner {
            assert!(rb.rcword.biased_counter.get() == b0 - 1);
        } else {
            assert!(G.cas_ok == 1 && rb.rcword.biased_counter.get() == b0 && rb.rcword.thread_id.get() == t0);
        }
        if r == DecrementAction::Deallocate {
            assert!(G.refs_me + G.refs_others == 0);
        } else {
            assert!(inv(&rb.rcword));
        }
        kani::cover!(G.me_owner && r == DecrementAction::Deallocate);
        kani::cover!(!G.me_owner && r == DecrementAction::Deallocate);
    }
}

// ------------------------------------------------------------------------------------------
// uniqueness test (get_mut / make_mut / try_unwrap trust it)
// ------------------------------------------------------------------------------------------

#[kani::proof]
#[kani::stub(SharedPacked::compare_exchange, cas_stub)]
#[kani::unwind(3)]
fn has_unique_ref_contract() {
    unsafe {
        let rb = any_state(0);
        attach(&rb);
        kani::assume(G.refs_me >= 1);
        let w0 = raw(&rb.rcword);
        let b0 = rb.rcword.biased_counter.get();
        let t0 = rb.rcword.thread_id.get();
        G.op = Op::Unique;
        G.budget = 1;
        let r = rb.has_unique_ref();
        // exclusive access only for the only reference
        if r {
            assert!(G.refs_me == 1 && G.refs_others == 0, "unique access granted with another reference alive");
        }
        // frame: asking does not change the count (the caller keeps its reference)
        assert!(inv(&rb.rcword));
        if G.cas_ok == 0 && G.cas_fail == 0 {
            assert!(raw(&rb.rcword) == w0 && rb.rcword.biased_counter.get() == b0 && rb.rcword.thread_id.get() == t0);
        }
        kani::cover!(r && G.me_owner);
        kani::cover!(r && t0.is_none());
        kani::cover!(!r && t0.is_none());
    }
}

/// the answer is not needlessly `false`: the sole holder of a merged or self-owned object whose
/// counts are settled does get exclusive access (otherwise make_mut would copy forever)
#[kani::proof]
#[kani::stub(SharedPacked::compare_exchange, cas_stub)]
#[kani::unwind(3)]
fn has_unique_ref_complete_contract() {
    unsafe {
        let rb = any_state(0);
        attach(&rb);
        kani::assume(G.refs_me == 1 && G.refs_others == 0);
        let w0 = raw(&rb.rcword);
        G.op = Op::Unique;
        let r = rb.has_unique_ref();
        if rb.rcword.thread_id.get().is_none() {
            assert!(r);
        }
        if G.me_owner && w0.value() == 0 {
            assert!(r);
        }
    }
}

// ------------------------------------------------------------------------------------------
// handle-level API on a real heap allocation: get_mut / make_mut / try_unwrap / clone / drop /
// strong_count / explicit merge
// ------------------------------------------------------------------------------------------

static mut DROPS: u32 = 0;

struct Pay(u8);

impl Drop for Pay {
    fn drop(&mut self) {
        unsafe {
            DROPS += 1;
        }
    }
}

impl Clone for Pay {
    fn clone(&self) -> Self {
        Pay(self.0)
    }
}

pub(crate) fn enqueue_stub<T: ?Sized + 'static>(_value: &BiasedRc<T>) {
    unsafe {
        G.enqueued += 1;
    }
}

/// a real allocation made by the real constructor, whose count word is then made symbolic
unsafe fn any_handle() -> BiasedRc<Pay> {
    DROPS = 0;
    let h = BiasedRc::new(Pay(kani::any()));
    init_word(h.meta());
    h
}

#[kani::proof]
#[kani::stub(SharedPacked::compare_exchange, cas_stub)]
#[kani::unwind(3)]
fn get_mut_contract() {
    unsafe {
        let mut h = any_handle();
        kani::assume(G.refs_me >= 1);
        G.op = Op::Unique;
        let some = BiasedRc::get_mut(&mut h).is_some();
        if some {
            assert!(G.refs_me == 1 && G.refs_others == 0, "exclusive access with another reference alive");
        }
        assert!(inv(h.meta()));
        assert!(DROPS == 0);
        kani::cover!(some);
        kani::cover!(!some && G.refs_me == 1 && G.refs_others == 1);
        mem::forget(h);
    }
}

#[kani::proof]
#[kani::stub(SharedPacked::compare_exchange, cas_stub)]
#[kani::stub(QueueHandle::enqueue, enqueue_stub)]
#[kani::unwind(3)]
fn make_mut_contract() {
    unsafe {
        let mut h = any_handle();
        kani::assume(G.refs_me >= 1 && !G.pending);
        let shared_before = G.refs_me + G.refs_others > 1;
        let p0 = h.ptr;
        let old_rc = h.meta() as *const RcWord;
        let v0 = h.0;
        if G.me_owner {
            G.op = Op::FastDecMerge;
            G.lazy_dec = true;
            G.mid_owner_op = true;
        } else {
            G.op = Op::SlowDec;
        }
        let got = BiasedRc::make_mut(&mut h).0;
        assert!(got == v0, "make_mut yields the same contents");
        if shared_before {
            // someone else can still observe the old allocation: the caller must have been moved
            // to a private copy, and its reference to the old one given up (exactly one decrement)
            assert!(h.ptr != p0, "mutable access to an allocation that another reference observes");
            assert!(DROPS == 0);
            let m = h.meta();
            assert!(m.thread_id.get() == Some(me()) && m.biased_counter.get() == 1 && raw(m).0 == 0);
            if G.lazy_dec {
                G.refs_me -= 1;
                G.lazy_dec = false;
            }
            G.mid_owner_op = false;
            assert!(inv(&*old_rc));
        } else if h.ptr == p0 {
            G.mid_owner_op = false;
            assert!(inv(h.meta()));
        }
        kani::cover!(shared_before);
        kani::cover!(!shared_before && h.ptr == p0);
        mem::forget(h);
    }
}

#[kani::proof]
#[kani::stub(SharedPacked::compare_exchange, cas_stub)]
#[kani::unwind(3)]
fn try_unwrap_contract() {
    unsafe {
        let h = any_handle();
        kani::assume(G.refs_me >= 1 && !G.pending);
        let total = G.refs_me + G.refs_others;
        let rc = h.meta() as *const RcWord;
        let w0 = raw(&*rc);
        let b0 = (*rc).biased_counter.get();
        let t0 = (*rc).thread_id.get();
        G.op = Op::Unwrap;
        G.budget = 1;
        match BiasedRc::try_unwrap(h) {
            Ok(p) => {
                if G.cas_ok == 1 {
                    assert!(G.refs_at_cas == 0, "unwrapped while another reference exists");
                } else {
                    assert!(total == 1, "unwrapped while another reference exists");
                }
                assert!(G.refs_others == 0, "unwrapped while another thread holds a reference");
                assert!(DROPS == 0, "the payload is moved out, not destroyed");
                mem::forget(p);
                kani::cover!(t0.is_none());
                kani::cover!(t0.is_some());
            }
            Err(h2) => {
                assert!(DROPS == 0);
                if G.cas_fail == 0 {
                    assert!(raw(&*rc) == w0 && (*rc).biased_counter.get() == b0 && (*rc).thread_id.get() == t0);
                }
                assert!(inv(&*rc));
                mem::forget(h2);
                kani::cover!(true);
            }
        }
    }
}

#[kani::proof]
#[kani::stub(SharedPacked::compare_exchange, cas_stub)]
#[kani::unwind(3)]
fn clone_contract() {
    unsafe {
        let h = any_handle();
        kani::assume(G.refs_me >= 1);
        G.op = Op::SlowInc;
        G.budget = 1;
        let h2 = h.clone();
        if G.me_owner {
            assert!(G.cas_ok == 0);
            G.refs_me += 1;
        } else {
            assert!(G.cas_ok == 1);
        }
        assert!(h2.ptr == h.ptr && inv(h.meta()) && DROPS == 0);
        mem::forget(h);
        mem::forget(h2);
    }
}

#[kani::proof]
#[kani::stub(SharedPacked::compare_exchange, cas_stub)]
#[kani::stub(QueueHandle::enqueue, enqueue_stub)]
#[kani::unwind(3)]
fn drop_contract() {
    unsafe {
        let h = any_handle();
        kani::assume(G.refs_me >= 1 && !G.pending);
        let rc = h.meta() as *const RcWord;
        let merged0 = raw(&*rc).is_merged();
        if G.me_owner {
            G.refs_me -= 1;
            G.mid_owner_op = true;
            G.op = Op::FastDecMerge;
        } else {
            G.op = Op::SlowDec;
        }
        G.budget = 1;
        drop(h);
        G.mid_owner_op = false;
        // destroyed exactly when the last reference of any thread is gone (or handed to the
        // owner's queue, which destroys it at the merge)
        if DROPS == 1 {
            assert!(G.refs_me + G.refs_others == 0, "payload destroyed while a reference is alive");
            assert!(G.enqueued == 0);
        } else {
            assert!(DROPS == 0);
            assert!((G.enqueued == 1) == G.my_flip);
            assert!(inv(&*rc));
            // nobody left, counts merged and nothing pending => it must have been destroyed now
            // (an unmerged word with no reference is an owner in the middle of its own merge)
            assert!(G.refs_me + G.refs_others > 0 || G.pending || !(merged0 || G.me_owner));
        }
        kani::cover!(DROPS == 1 && G.me_owner);
        kani::cover!(DROPS == 1 && !G.me_owner);
        kani::cover!(G.enqueued == 1);
    }
}

#[kani::proof]
#[kani::stub(SharedPacked::compare_exchange, cas_stub)]
#[kani::unwind(3)]
fn strong_count_contract() {
    unsafe {
        let h = any_handle();
        kani::assume(G.refs_me >= 1);
        let rc = h.meta();
        let w0 = raw(rc);
        let b0 = rc.biased_counter.get();
        let t0 = rc.thread_id.get();
        let n = BiasedRc::strong_count(&h);
        // read-only
        assert!(raw(rc) == w0 && rc.biased_counter.get() == b0 && rc.thread_id.get() == t0 && G.cas_ok == 0);
        // exact once merged
        if w0.is_merged() && t0.is_none() {
            assert!(n as i64 == G.refs_me + G.refs_others);
        }
        mem::forget(h);
    }
}

unsafe fn queue_entry_for(h: &BiasedRc<Pay>) -> Vec<Wrapper> {
    let mut v: Vec<Wrapper> = Vec::new();
    v.push(Wrapper(Box::new(ManuallyDrop::new(BiasedRc::from_inner(h.ptr)))));
    v
}

/// explicit merge of one queue entry by the owner thread
#[kani::proof]
#[kani::stub(SharedPacked::compare_exchange, cas_stub)]
#[kani::stub(QueueHandle::enqueue, enqueue_stub)]
#[kani::unwind(3)]
fn explicit_merge_contract() {
    unsafe {
        let h = any_handle();
        kani::assume(G.me_owner && G.pending);
        let rc = h.meta() as *const RcWord;
        let mut q = queue_entry_for(&h);
        mem::forget(h); // the harness' own handle is only a way to build the entry; refs are ghost
        G.op = Op::QueueMerge;
        G.mid_owner_op = true;
        G.budget = 1;
        let n = QueueHandle::explicit_merge(&mut q);
        G.mid_owner_op = false;
        assert!(n == 1 && q.is_empty());
        assert!(G.cas_ok == 1 && !G.pending);
        if G.a_at_cas == 0 {
            assert!(G.refs_at_cas == 0);
            assert!(DROPS == 1, "nobody holds it any more: the merge must destroy it");
        } else {
            assert!(DROPS == 0, "destroyed by the merge while references exist");
            assert!(raw(&*rc).is_merged());
            assert!((*rc).thread_id.get().is_none(), "a merged object must not keep its owner (the owner would go on counting privately)");
            assert!(inv(&*rc));
        }
        kani::cover!(DROPS == 1);
        kani::cover!(DROPS == 0 && G.cas_fail == 1);
    }
}

/// BiasedMerge::merge, same contract (the trait method duplicates the queue step)
#[kani::proof]
#[kani::stub(SharedPacked::compare_exchange, cas_stub)]
#[kani::unwind(3)]
fn biased_merge_contract() {
    unsafe {
        let h = any_handle();
        kani::assume(G.me_owner && G.pending);
        let rc = h.meta() as *const RcWord;
        let entry = BiasedRc::from_inner(h.ptr);
        mem::forget(h);
        G.op = Op::QueueMerge;
        G.mid_owner_op = true;
        G.budget = 1;
        BiasedMerge::merge(entry);
        G.mid_owner_op = false;
        assert!(G.cas_ok == 1 && !G.pending);
        if G.a_at_cas == 0 {
            assert!(DROPS == 1);
        } else {
            assert!(DROPS == 0 && raw(&*rc).is_merged() && (*rc).thread_id.get().is_none());
            assert!(inv(&*rc));
        }
    }
}
