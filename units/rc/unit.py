"""Unit `rc` (engine E1): the whole real crates/steel-rc under Kani, contracts injected in place."""
import os
import re
import shutil

from vlib.common import REPO, VERIF, AnchorLost, read, repo_file, run, sha256, write
from vlib.inject import inject_attrs, find_header
from vlib import kani

NAME = "rc"
SRC = "crates/steel-rc/src/lib.rs"

# (header anchor, attribute lines) — function contracts placed on the real functions
CONTRACTS = [
    ("fn set_value(&mut self, value: i32)", [
        "#[cfg_attr(kani, kani::requires(value >= -(1 << 29) && value < (1 << 29)))]",
        "#[cfg_attr(kani, kani::modifies(self))]",
        "#[cfg_attr(kani, kani::ensures(|_r| self.value() == value && (self.0 & !VALUE_MASK) == (old(self.0) & !VALUE_MASK)))]",
    ]),
    ("fn value(&self) -> i32", [
        "#[cfg_attr(kani, kani::ensures(|r: &i32| *r >= -(1 << 29) && *r < (1 << 29) && ((*r as u32) & VALUE_MASK) == (self.0 & VALUE_MASK)))]",
    ]),
    ("fn new_with(value: i32, merged: bool, queued: bool) -> Self", [
        "#[cfg_attr(kani, kani::requires(value >= -(1 << 29) && value < (1 << 29)))]",
        "#[cfg_attr(kani, kani::ensures(|r: &Packed| r.value() == value && r.is_merged() == merged && r.is_queued() == queued))]",
    ]),
    ("pub fn set_merged(&mut self, merged: bool)", [
        "#[cfg_attr(kani, kani::modifies(self))]",
        "#[cfg_attr(kani, kani::ensures(|_r| self.is_merged() == merged && (self.0 & !FLAG_MERGED) == (old(self.0) & !FLAG_MERGED)))]",
    ]),
    ("pub fn set_queued(&mut self, queued: bool)", [
        "#[cfg_attr(kani, kani::modifies(self))]",
        "#[cfg_attr(kani, kani::ensures(|_r| self.is_queued() == queued && (self.0 & !FLAG_QUEUED) == (old(self.0) & !FLAG_QUEUED)))]",
    ]),
]

# functions whose real bodies are exercised by the harnesses (for the evidence file)
FUNCTIONS = [
    "Packed::value", "Packed::set_value", "Packed::new_with", "Packed::set_merged", "Packed::set_queued",
    "Packed::is_merged", "Packed::is_queued", "Packed::update_counter", "Packed::new", "SharedPacked::new",
    "RcWord::new", "ThreadId::current_thread", "ThreadId::eq",
    "RcBox::increment", "RcBox::fast_increment", "RcBox::slow_increment",
    "RcBox::decrement", "RcBox::fast_decrement", "RcBox::slow_decrement", "RcBox::has_unique_ref",
    "BiasedRc::new", "BiasedRc::get_mut", "BiasedRc::make_mut", "BiasedRc::try_unwrap", "BiasedRc::try_unwrap_internal",
    "BiasedRc::try_unwrap_internal_same_thread", "BiasedRc::clone", "BiasedRc::drop", "BiasedRc::strong_count",
    "BiasedRc::drop_contents_and_maybe_box", "QueueHandle::explicit_merge", "BiasedMerge::merge",
]

I_TEXT = ("I: A==refs_me+refs_others, tid==None=>merged, tid==Some(me)=>!merged&&biased>=1, "
          "counter<0=>queued, queued&&!merged<=>pending")

SPECS = [
    dict(name="packed_set_value_contract", kind="proof", functions=["Packed::set_value"],
         contract="requires -2^29<=v<2^29; ensures value()==v && flag bits unchanged"),
    dict(name="packed_value_contract", kind="proof", functions=["Packed::value"],
         contract="ensures -2^29<=r<2^29 && low 30 bits of r == low 30 bits of word (sign extension)"),
    dict(name="packed_new_with_contract", kind="proof", functions=["Packed::new_with"],
         contract="ensures value()==v && is_merged()==m && is_queued()==q"),
    dict(name="packed_set_merged_contract", kind="proof", functions=["Packed::set_merged"],
         contract="ensures is_merged()==m && all other bits unchanged"),
    dict(name="packed_set_queued_contract", kind="proof", functions=["Packed::set_queued"],
         contract="ensures is_queued()==q && all other bits unchanged"),
    dict(name="packed_roundtrip_all_words", kind="proof",
         functions=["Packed::value", "Packed::set_value", "Packed::update_counter", "Packed::set_counter"],
         contract="for all 2^32 words and all 30-bit v: value(set_value(v))==v, fields independent"),
    dict(name="packed_new_is_zero_unflagged", kind="proof", functions=["Packed::new", "SharedPacked::new", "RcWord::new"],
         contract="a new object is owned by the creating thread with biased==1, shared==0, no flags"),
    dict(name="fast_increment_contract", kind="proof", functions=["RcBox::fast_increment"],
         contract=f"requires I && owner==me && refs_me>=1; ensures I[refs_me+1] && shared word, owner unchanged. {I_TEXT}"),
    dict(name="slow_increment_seq_contract", kind="proof", functions=["RcBox::slow_increment"],
         contract="requires I && owner!=me && refs_me>=1; ensures A'==A+1, flags unchanged, biased/tid untouched, exactly one successful CAS"),
    dict(name="slow_increment_rg_contract", kind="proof", functions=["RcBox::slow_increment"],
         contract="under arbitrary I-preserving interference before the CAS (one failed CAS then retry): I holds at the linearising CAS with refs_me+1"),
    dict(name="increment_dispatch_contract", kind="proof", functions=["RcBox::increment"],
         contract="owner takes the private path (shared word untouched), others the CAS path (biased untouched); I[refs_me+1]"),
    dict(name="slow_decrement_seq_contract", kind="proof", functions=["RcBox::slow_decrement"],
         contract="A'==A-1; queued'==queued||c'<0; Queue<=>this CAS flipped queued; Deallocate=>refs'==0 && no pending queue entry; merged&&refs'==0&&!pending=>Deallocate"),
    dict(name="slow_decrement_rg_contract", kind="proof", functions=["RcBox::slow_decrement"],
         contract="same result contract under interference between load and CAS"),
    dict(name="fast_decrement_seq_contract", kind="proof", functions=["RcBox::fast_decrement"],
         contract="requires I && owner==me && refs_me>=1 && !pending; biased'==biased-1; biased'>0 => DoNothing, word unchanged; biased'==0 => merged', Deallocate<=>A'==0 (=> refs'==0), else tid'==None; I'"),
    dict(name="fast_decrement_rg_contract", kind="proof", functions=["RcBox::fast_decrement"],
         contract="same under interference by non-owner threads between load and CAS"),
    dict(name="fast_decrement_pending_entry_contract", kind="known", functions=["RcBox::fast_decrement"],
         contract="same contract on the input class `pending` (an entry for the object waits in the owner's merge queue): I requires pending => !merged"),
    dict(name="decrement_dispatch_contract", kind="proof", functions=["RcBox::decrement"],
         contract="owner decrements privately, others through the CAS path and never touch biased/tid; Deallocate => refs'==0; I'"),
    dict(name="has_unique_ref_contract", kind="proof", functions=["RcBox::has_unique_ref"],
         contract="requires I && refs_me>=1; ensures result => refs_me==1 && refs_others==0; the count is not changed (I still holds with the same ghost refs; no write without CAS)"),
    dict(name="get_mut_contract", kind="proof", functions=["BiasedRc::get_mut", "RcBox::has_unique_ref", "BiasedRc::new"],
         contract="requires I && refs_me>=1; Some(_) => refs_me==1 && refs_others==0; I unchanged; payload not dropped"),
    dict(name="make_mut_contract", kind="proof", functions=["BiasedRc::make_mut", "BiasedRc::drop", "BiasedRc::new"],
         contract="if any other reference exists the caller ends up on a fresh private allocation (biased 1, shared 0) and gives up exactly one reference to the old one (I on the old word); contents equal"),
    dict(name="try_unwrap_contract", kind="proof", functions=["BiasedRc::try_unwrap", "BiasedRc::try_unwrap_internal", "BiasedRc::try_unwrap_internal_same_thread"],
         contract="Ok => it was the only reference of any thread, payload moved out not dropped; Err => word/biased/tid unchanged, I"),
    dict(name="clone_contract", kind="proof", functions=["BiasedRc::clone", "RcBox::increment"],
         contract="same allocation, I[refs_me+1], under interference"),
    dict(name="drop_contract", kind="proof", functions=["BiasedRc::drop", "RcBox::decrement", "BiasedRc::drop_contents_and_maybe_box"],
         contract="payload destroyed => no reference of any thread remains; enqueued <=> this drop flipped queued; no reference and nothing pending => destroyed now"),
    dict(name="strong_count_contract", kind="proof", functions=["BiasedRc::strong_count"],
         contract="read-only; exact (== live references) once merged"),
    dict(name="explicit_merge_contract", kind="proof", functions=["QueueHandle::explicit_merge", "BiasedRc::drop_contents_and_maybe_box_outer"],
         contract="requires I && owner==me && pending (one queue entry); ensures entry consumed, A'==A, merged', pending cleared; A==0 => destroyed exactly once; else not destroyed && tid'==None && I", bound=None),
    dict(name="biased_merge_contract", kind="proof", functions=["BiasedMerge::merge"],
         contract="same as explicit_merge for one entry"),
    dict(name="has_unique_ref_complete_contract", kind="proof", functions=["RcBox::has_unique_ref"],
         contract="refs==1 && (no owner || owner==me && shared counter==0) => true"),
]


def prepare(scratch):
    """Copy the real crate, inject contracts, append the harness module. Returns meta dict."""
    crate = os.path.join(scratch, "steel-rc")
    shutil.copytree(os.path.join(REPO, "crates/steel-rc"), crate, ignore=shutil.ignore_patterns("target"))
    shutil.copy(os.path.join(REPO, "Cargo.lock"), os.path.join(crate, "Cargo.lock"))
    ct = read(os.path.join(crate, "Cargo.toml"))
    ws = read(os.path.join(REPO, "Cargo.toml"))
    m = re.search(r"\[workspace\.package\]\s*version\s*=\s*\"([^\"]+)\"", ws)
    ver = m.group(1) if m else "0.0.0"
    ct = ct.replace("version.workspace = true", f'version = "{ver}"')
    ct += "\n[workspace]\n"
    write(os.path.join(crate, "Cargo.toml"), ct)
    lib = read(os.path.join(crate, "src/lib.rs"))
    real_sha = sha256(lib)
    for header, attrs in CONTRACTS:
        lib = inject_attrs(lib, header, attrs)
    # anchors of the functions the harnesses call (must exist exactly once)
    for h in ["pub fn fast_increment(&self)", "pub fn slow_increment(&self)", "pub fn fast_decrement(&self) -> DecrementAction",
              "pub fn slow_decrement(&self) -> DecrementAction", "fn has_unique_ref(&self) -> bool",
              "pub fn increment(&self)", "pub fn decrement(&self) -> DecrementAction"]:
        find_header(lib, h)
    harness = read(os.path.join(VERIF, "units/rc/harness.rs"))
    lib += "\n#[cfg(kani)]\n#[path = \"verif_rc_harness.rs\"]\nmod verif_rc;\n"
    write(os.path.join(crate, "src/lib.rs"), lib)
    write(os.path.join(crate, "src/verif_rc_harness.rs"), harness)
    meta = {"unit": NAME, "engine": "E1: whole real crate under Kani; contracts injected in place",
            "source": SRC, "source_sha256": real_sha, "functions_under_contract": FUNCTIONS,
            "extractor_edits": ["none: the crate is copied verbatim; function-contract attributes are inserted above 5 functions; a #[cfg(kani)] harness module is appended"],
            "harness_sha256": sha256(harness)}
    return crate, meta, harness


C03_OBS = {"has_unique_ref_contract", "has_unique_ref_complete_contract", "get_mut_contract", "make_mut_contract", "try_unwrap_contract", "strong_count_contract"}


def run_for(scratch, tier, prop):
    return run_unit(scratch, tier, only=(C03_OBS if prop == "C03" else None))


def run_unit(scratch, tier, only=None):
    crate, meta, harness = prepare(scratch)
    specs = [x for x in SPECS if only is None or x["name"] in only]
    canary = dict(name="canary_must_fail", kind="canary", contract="assert!(false) behind the unit's preconditions")
    # canary harness appended to the crate
    lib = read(os.path.join(crate, "src/lib.rs"))
    lib += """
#[cfg(kani)]
mod verif_rc_canary {
    use super::*;
    #[kani::proof]
    fn canary_must_fail() {
        let mut p = Packed::new();
        let v: i32 = kani::any();
        kani::assume(v >= -(1 << 29) && v < (1 << 29));
        p.set_counter(v);
        assert!(p.get_counter() != v, "canary: must be reported as failing");
    }
}
"""
    write(os.path.join(crate, "src/lib.rs"), lib)
    specs.append(canary)
    obs, cmd, out = kani.run_harnesses(crate, specs, NAME, "rc", timeout=2400)
    kani.attach_counterexamples(obs, crate, "rc", out)
    meta["assumption_scan"] = __import__("vlib.common", fromlist=["scan_assumptions"]).scan_assumptions(harness, "units/rc/harness.rs")
    return obs, meta, cmd
