// Unit `env` prelude (TRUSTED, hand written). The global table of crates/steel-core/src/env.rs:
// `SharedVectorWrapper::{set_idx, repl_define_idx}` and the `sync` impl of `Env` are extracted
// verbatim. `shared_vector::AtomicSharedVector<T>` is modelled by a Vec with the same API
// (assumed contract; its copy-on-write behaviour between threads is NOT modelled - C15 territory).
#![allow(dead_code, unused_variables, unused_imports)]

#[derive(Clone, Debug, PartialEq)]
pub enum SteelVal {
    Void,
    IntV(isize),
    BoolV(bool),
}
pub struct SteelErr;
pub type Result<T> = core::result::Result<T, SteelErr>;

#[derive(Clone, Debug)]
pub struct AtomicSharedVector<T>(pub Vec<T>);
impl<T: Clone> AtomicSharedVector<T> {
    pub fn with_capacity(n: usize) -> Self {
        AtomicSharedVector(Vec::with_capacity(16))
    }
    pub fn len(&self) -> usize {
        self.0.len()
    }
    pub fn push(&mut self, v: T) {
        self.0.push(v)
    }
    pub fn get(&self, i: usize) -> Option<&T> {
        self.0.get(i)
    }
    pub fn get_mut(&mut self, i: usize) -> Option<&mut T> {
        self.0.get_mut(i)
    }
    pub fn as_slice(&self) -> &[T] {
        &self.0
    }
}
impl<T> core::ops::Index<usize> for AtomicSharedVector<T> {
    type Output = T;
    fn index(&self, i: usize) -> &T {
        &self.0[i]
    }
}
impl<T> core::ops::IndexMut<usize> for AtomicSharedVector<T> {
    fn index_mut(&mut self, i: usize) -> &mut T {
        &mut self.0[i]
    }
}
