"""Unit `env` (C06, engine E2): the global table (env.rs) - defining or assigning one slot never
disturbs another."""
import os
import shutil

from vlib.common import REPO, VERIF, read, write, sha256, scan_assumptions
from vlib.extract import Extractor
from vlib import kani

NAME = "env"
ENV = "crates/steel-core/src/env.rs"


def build(scratch):
    ex = Extractor()
    parts = ["#[derive(Debug, Clone)]\n" + ex.item(ENV, "struct", "SharedVectorWrapper"), ex.impl_block(ENV, r"impl SharedVectorWrapper")]
    parts.append("#[derive(Debug)]\n" + ex.item(ENV, "struct", "Env"))
    src = ex.src(ENV)
    # the second `impl Env {` block is the cfg(feature = "sync") one (the baseline configuration)
    import re
    ms = [m for m in re.finditer(r"^#\[cfg\(feature = \"sync\"\)\]\nimpl Env \{", src, re.M)]
    if len(ms) != 1:
        from vlib.common import AnchorLost
        raise AnchorLost("sync impl of Env not found exactly once")
    ob = src.index("{", ms[0].start())
    from vlib.extract import match_close
    end = match_close(src, ob)
    fns = [ex.fn(ENV, n, within=(ob, end)) for n in ["len", "root", "repl_lookup_idx", "repl_maybe_lookup_idx", "repl_set_idx"]]
    for it in ex.items[-5:]:
        it["edits"] = ["D1", "D2 (sync impl)", "D3"]
    parts.append("impl Env {\n    " + "\n\n    ".join(fns) + "\n}")
    text = "\n\n".join(parts) + "\n"
    crate = os.path.join(scratch, "envx")
    os.makedirs(os.path.join(crate, "src"))
    shutil.copy(os.path.join(REPO, "Cargo.lock"), os.path.join(crate, "Cargo.lock"))
    write(os.path.join(crate, "Cargo.toml"), "[package]\nname = \"envx\"\nversion = \"0.0.0\"\nedition = \"2021\"\n\n[features]\ndefault = [\"sync\"]\nsync = []\n\n[dependencies]\n\n[workspace]\n\n[lints.rust]\nunexpected_cfgs = { level = \"allow\", check-cfg = ['cfg(kani)'] }\n")
    prelude = read(os.path.join(VERIF, "units/env/prelude.rs"))
    harness = read(os.path.join(VERIF, "units/env/harness.rs"))
    write(os.path.join(crate, "src/prelude.rs"), prelude)
    write(os.path.join(crate, "src/x_env.rs"), "#![allow(dead_code, unused_imports, unused_variables, unused_mut)]\nuse crate::prelude::*;\n\n" + text + "\n#[cfg(kani)]\n#[path = \"harness.rs\"]\nmod harness;\n")
    write(os.path.join(crate, "src/harness.rs"), harness)
    write(os.path.join(crate, "src/lib.rs"), "#![allow(dead_code, unused_imports)]\npub mod prelude;\npub mod x_env;\n")
    meta = {"unit": NAME, "engine": "E2: verbatim item extraction into a mini crate + Kani", "items": ex.items,
            "prelude": "units/env/prelude.rs", "prelude_sha256": sha256(prelude), "harness_sha256": sha256(harness),
            "extractor_edits": "D1; D2 (feature sync on: the sync fields / impl of Env); D3",
            "assumption_scan": scan_assumptions(harness, "units/env/harness.rs") + scan_assumptions(prelude, "units/env/prelude.rs")}
    return crate, meta


OBS = {
    "define_idx_frame_contract": dict(kind="bounded", bound="tables of 3 slots, target index 0-6, symbolic contents", functions=["SharedVectorWrapper::repl_define_idx", "Env::repl_lookup_idx", "Env::repl_maybe_lookup_idx"],
        contract="defining global slot i: afterwards slot i holds the value, every other existing slot is unchanged, the table only grows (new slots below i read #<void>); reading slot i then yields exactly that value"),
    "set_idx_frame_contract": dict(kind="bounded", bound="tables of 3 slots, symbolic contents and index", functions=["SharedVectorWrapper::set_idx", "Env::repl_set_idx"],
        contract="assigning an existing global slot i returns the old value, stores the new one, changes no other slot and not the size (precondition from the compiler: i < len; outside it the functions panic - caller obligation, listed)"),
}


def run_for(scratch, tier, prop):
    return run_unit(scratch, tier)


def run_unit(scratch, tier):
    crate, meta = build(scratch)
    p = os.path.join(crate, "src/harness.rs")
    write(p, read(p) + "\n#[kani::proof]\n#[kani::unwind(8)]\nfn canary_must_fail() {\n    let mut e = table([1, 2, 3]);\n    e.bindings.repl_define_idx(1, SteelVal::IntV(9));\n    assert!(e.repl_lookup_idx(1) == SteelVal::IntV(2), \"canary: must be reported as failing\");\n}\n")
    specs = [dict(name=n, kind=o["kind"], contract=o["contract"], functions=o["functions"], bound=o.get("bound")) for n, o in OBS.items()]
    specs.append(dict(name="canary_must_fail", kind="canary", contract="assert that must fail"))
    obs, cmd, out = kani.run_harnesses(crate, specs, NAME, "env", jobs=3, timeout=3000, harness_timeout="10m",
                                       extra_flags=["--no-assertion-reach-checks"])
    kani.attach_counterexamples(obs, crate, "env", out)
    return obs, meta, cmd
