// Contract harnesses for the global table (unit `env`). Child module of x_env.rs.
use super::*;
use crate::prelude::*;

pub fn table(v: [isize; 3]) -> Env {
    let mut e = Env::root();
    e.bindings.0.push(SteelVal::IntV(v[0]));
    e.bindings.0.push(SteelVal::IntV(v[1]));
    e.bindings.0.push(SteelVal::IntV(v[2]));
    e
}

#[kani::proof]
#[kani::unwind(8)]
fn define_idx_frame_contract() {
    let v: [isize; 3] = kani::any();
    let mut e = table(v);
    let idx: usize = kani::any();
    kani::assume(idx <= 6);
    let nv: isize = kani::any();
    e.bindings.repl_define_idx(idx, SteelVal::IntV(nv));
    assert!(e.repl_lookup_idx(idx) == SteelVal::IntV(nv), "the slot holds the defined value");
    assert!(e.repl_maybe_lookup_idx(idx) == Some(SteelVal::IntV(nv)));
    assert!(e.len() == if idx < 3 { 3 } else { idx + 1 }, "the table only grows, exactly up to the slot");
    let mut j = 0;
    while j < e.len() {
        if j != idx {
            if j < 3 {
                assert!(e.repl_lookup_idx(j) == SteelVal::IntV(v[j]), "an earlier definition is not disturbed");
            } else {
                assert!(e.repl_lookup_idx(j) == SteelVal::Void, "slots created on the way are void");
            }
        }
        j += 1;
    }
    assert!(e.repl_maybe_lookup_idx(e.len()).is_none());
}

#[kani::proof]
#[kani::unwind(8)]
fn set_idx_frame_contract() {
    let v: [isize; 3] = kani::any();
    let idx: usize = kani::any();
    kani::assume(idx < 3);
    let nv: isize = kani::any();
    let via_env: bool = kani::any();
    let mut e = table(v);
    let old = if via_env {
        match e.repl_set_idx(idx, SteelVal::IntV(nv)) {
            Ok(o) => o,
            Err(_) => {
                assert!(false);
                unreachable!()
            }
        }
    } else {
        e.bindings.set_idx(idx, SteelVal::IntV(nv))
    };
    assert!(old == SteelVal::IntV(v[idx]), "assignment returns the previous value");
    assert!(e.len() == 3);
    let mut j = 0;
    while j < 3 {
        assert!(e.repl_lookup_idx(j) == SteelVal::IntV(if j == idx { nv } else { v[j] }), "only the assigned slot changes");
        j += 1;
    }
}
