// Unit `cset` prelude (TRUSTED, hand written): the types the verbatim text of the `CollectSet` visitor
// (steel_vm/const_evaluation.rs) mentions. CollectSet is the pre-pass that records which variables are
// assigned with set!, so that the constant folder never replaces a read of them by the initial value.
//  * AST: reduced - a sub-expression is a `Leaf(id)` (anything) or an `Ident(name)`; node structs carry the
//    real field names
//  * `CollectSet::visit` is the CALLEE CONTRACT of the recursive visitor: it records which sub-expression
//    it was handed and the scope state at that moment (depth, whether the two probe names are in scope)
//    and returns with the scope stack unchanged - which every extracted visit_* is proved to re-establish
//  * quickscope::ScopeSet, FxHashSet, SmallVec: exact finite models (assumed contracts)
#![allow(dead_code, unused_variables, unused_imports)]

#[derive(Clone, Copy, PartialEq, Eq, Debug)]
pub struct InternedString(pub u32);
#[derive(Clone, Copy, PartialEq, Eq, Debug, Default)]
pub struct Span;
pub struct SyntaxObject {
    pub span: Span,
}

pub enum ExprKind {
    Leaf(u32),
    Ident(InternedString),
}
impl ExprKind {
    pub fn atom_identifier(&self) -> Option<&InternedString> {
        match self {
            ExprKind::Ident(s) => Some(s),
            _ => None,
        }
    }
    pub fn atom_identifier_or_else<E, F: FnOnce() -> E>(&self, err: F) -> core::result::Result<&InternedString, E> {
        match self {
            ExprKind::Ident(s) => Ok(s),
            _ => Err(err()),
        }
    }
}

/// a sequence of at most 3 elements in a typed array (see units/anl/prelude.rs)
pub struct ArrVec<T> {
    pub a: [Option<T>; 3],
    pub n: usize,
}
impl<T> ArrVec<T> {
    pub fn iter(&self) -> ArrIter<'_, T> {
        ArrIter { v: self, i: 0 }
    }
}
pub struct ArrIter<'a, T> {
    v: &'a ArrVec<T>,
    i: usize,
}
impl<'a, T> Iterator for ArrIter<'a, T> {
    type Item = &'a T;
    fn next(&mut self) -> Option<&'a T> {
        if self.i < self.v.n && self.i < 3 {
            self.i += 1;
            self.v.a[self.i - 1].as_ref()
        } else {
            None
        }
    }
}
impl<'a, T> IntoIterator for &'a ArrVec<T> {
    type Item = &'a T;
    type IntoIter = ArrIter<'a, T>;
    fn into_iter(self) -> Self::IntoIter {
        self.iter()
    }
}

pub struct If {
    pub test_expr: ExprKind,
    pub then_expr: ExprKind,
    pub else_expr: ExprKind,
}
pub struct Define {
    pub name: ExprKind,
    pub body: ExprKind,
}
pub struct LambdaFunction {
    pub args: ArrVec<ExprKind>,
    pub body: ExprKind,
}
pub struct Begin {
    pub exprs: ArrVec<ExprKind>,
}
pub struct Return {
    pub expr: ExprKind,
}
pub struct List {
    pub args: ArrVec<ExprKind>,
}
pub struct Set {
    pub variable: ExprKind,
    pub expr: ExprKind,
    pub location: SyntaxObject,
}
pub struct Let {
    pub bindings: ArrVec<(ExprKind, ExprKind)>,
    pub body_expr: ExprKind,
}
pub struct Quote;
pub struct Macro;
pub struct Atom;
pub struct SyntaxRules;
pub struct Require;
pub struct Vector;

#[derive(Clone, Copy, Debug, PartialEq)]
pub struct SteelErr;
macro_rules! throw {
    ($type:ident => $($rest:tt)+) => {
        || $crate::prelude::SteelErr
    };
}
pub(crate) use throw;

pub struct FxBuildHasher;
pub struct FxHashSet<T> {
    pub e: [Option<T>; 4],
}
impl<T: PartialEq + Copy> FxHashSet<T> {
    pub fn contains(&self, k: &T) -> bool {
        let mut i = 0;
        while i < 4 {
            if self.e[i] == Some(*k) {
                return true;
            }
            i += 1;
        }
        false
    }
    pub fn insert(&mut self, k: T) -> bool {
        if self.contains(&k) {
            return false;
        }
        let mut i = 0;
        while i < 4 {
            if self.e[i].is_none() {
                self.e[i] = Some(k);
                return true;
            }
            i += 1;
        }
        panic!("cset prelude: set model capacity exceeded");
    }
}

pub mod quickscope {
    /// layered set: `define` adds to the top layer, `pop_layer` removes the top layer's keys (never the
    /// bottom layer), `contains` looks through all layers
    pub struct ScopeSet<T, S> {
        pub items: [Option<(T, usize)>; 6],
        pub depth: usize,
        pub _s: core::marker::PhantomData<S>,
    }
    impl<T: PartialEq + Copy, S> ScopeSet<T, S> {
        pub fn push_layer(&mut self) {
            self.depth += 1;
        }
        pub fn pop_layer(&mut self) -> bool {
            if self.depth == 0 {
                return false;
            }
            let mut i = 0;
            while i < 6 {
                if let Some((_, d)) = self.items[i] {
                    if d == self.depth {
                        self.items[i] = None;
                    }
                }
                i += 1;
            }
            self.depth -= 1;
            true
        }
        pub fn define(&mut self, key: T) {
            let mut i = 0;
            while i < 6 {
                if self.items[i].is_none() {
                    self.items[i] = Some((key, self.depth));
                    return;
                }
                i += 1;
            }
            panic!("cset prelude: scope model capacity exceeded");
        }
        pub fn contains(&self, key: &T) -> bool {
            let mut i = 0;
            while i < 6 {
                if let Some((k, _)) = self.items[i] {
                    if k == *key {
                        return true;
                    }
                }
                i += 1;
            }
            false
        }
    }
}

pub mod smallvec {
    pub trait Array {
        type Item;
    }
    impl<T, const N: usize> Array for [T; N] {
        type Item = T;
    }
    pub struct SmallVec<A: Array> {
        pub a: [Option<A::Item>; 4],
        pub n: usize,
    }
    impl<A: Array> SmallVec<A> {
        pub fn push(&mut self, v: A::Item) {
            if self.n < 4 {
                self.a[self.n] = Some(v);
            }
            self.n += 1;
        }
    }
}

/// ghost log of the recursive visitor's calls
#[derive(Clone, Copy, PartialEq, Debug)]
pub struct Visit {
    pub id: u32,
    pub depth: usize,
    pub p1_in_scope: bool,
    pub p2_in_scope: bool,
}
pub static mut VISITS: [Option<Visit>; 8] = [None; 8];
pub static mut NVISITS: usize = 0;
pub const P1: InternedString = InternedString(101);
pub const P2: InternedString = InternedString(102);
