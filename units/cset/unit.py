"""Unit `cset` (C01, C06; engine E2): CollectSet - the pre-pass of the constant folder that records which variables are
assigned (steel_vm/const_evaluation.rs). A variable it misses is folded to its initial value."""
import os
import shutil

from vlib.common import REPO, VERIF, read, write, sha256, scan_assumptions
from vlib.extract import Extractor
from vlib import kani

NAME = "cset"
CE = "crates/steel-core/src/steel_vm/const_evaluation.rs"
FNS = ["visit_if", "visit_define", "visit_lambda_function", "visit_begin", "visit_return", "visit_list", "visit_set", "visit_let"]
LEAF_FNS = ["visit_quote", "visit_macro", "visit_atom", "visit_syntax_rules", "visit_require", "visit_vector"]


def build(scratch):
    ex = Extractor()
    struct = ex.item(CE, "struct", "CollectSet")
    s, ob, end = ex.impl_range(CE, r"impl<'a> VisitorMut for CollectSet<'a>")
    fns = [ex.fn(CE, n, within=(ob, end)).replace("-> Self::Output", "-> ()") for n in FNS + LEAF_FNS]
    for it in ex.items[-len(fns):]:
        it["edits"] = ["D1", "D3", "`Self::Output` spelled out as `()` (the associated type of the trait impl)"]
    text = struct + "\n\nimpl<'a> CollectSet<'a> {\n    " + "\n\n    ".join(fns) + "\n}\n"
    crate = os.path.join(scratch, "csetx")
    os.makedirs(os.path.join(crate, "src"))
    shutil.copy(os.path.join(REPO, "Cargo.lock"), os.path.join(crate, "Cargo.lock"))
    write(os.path.join(crate, "Cargo.toml"), "[package]\nname = \"csetx\"\nversion = \"0.0.0\"\nedition = \"2021\"\n\n[dependencies]\n\n[workspace]\n\n[lints.rust]\nunexpected_cfgs = { level = \"allow\", check-cfg = ['cfg(kani)'] }\n")
    prelude = read(os.path.join(VERIF, "units/cset/prelude.rs"))
    harness = read(os.path.join(VERIF, "units/cset/harness.rs"))
    write(os.path.join(crate, "src/prelude.rs"), prelude)
    write(os.path.join(crate, "src/x_cset.rs"), "#![allow(dead_code, unused_imports, unused_variables, unused_mut)]\nuse crate::prelude::*;\nuse crate::prelude::{quickscope, smallvec, throw};\n\n" + text
          + "\n#[cfg(kani)]\n#[path = \"harness.rs\"]\nmod harness;\n")
    write(os.path.join(crate, "src/harness.rs"), harness)
    write(os.path.join(crate, "src/lib.rs"), "#![allow(dead_code, unused_imports, unused_macros)]\n#[macro_use]\npub mod prelude;\npub mod x_cset;\npub mod parser {\n    pub mod ast {\n        pub use crate::prelude::{Macro, Require, Return, Set, SyntaxRules, Vector, Let};\n    }\n}\n")
    meta = {"unit": NAME, "engine": "E2: verbatim item extraction into a mini crate + Kani", "items": ex.items,
            "prelude": "units/cset/prelude.rs", "prelude_sha256": sha256(prelude), "harness_sha256": sha256(harness),
            "extractor_edits": "D1; D3 (the methods of `impl VisitorMut for CollectSet` are put into an inherent impl, `Self::Output` spelled out as `()`; the trait's dispatching `self.visit` is a ghost callee)",
            "assumption_scan": scan_assumptions(harness, "units/cset/harness.rs") + scan_assumptions(prelude, "units/cset/prelude.rs")}
    return crate, meta


OBS = {
    "collectset_visits_every_subexpression_once": dict(kind="bounded", bound="begin / application with 0-3 sub-expressions; entry scope depth 0-2", functions=["CollectSet::visit_if", "CollectSet::visit_define", "CollectSet::visit_begin", "CollectSet::visit_list", "CollectSet::visit_return"],
        contract="an assignment can sit in any sub-expression: if / define / begin / application / return hand EVERY sub-expression (test, then, else; name, body; each body expression; operator and operands) to the visitor (at least once), in the scope of the node, and leave the scope stack as it was"),
    "collectset_lambda_scope_contract": dict(kind="bounded", bound="0-2 parameters; entry scope depth 0-2", functions=["CollectSet::visit_lambda_function"],
        contract="the body is visited inside a fresh scope layer holding exactly the parameters; afterwards the layer is gone (a parameter name does not hide a global of the same name in later code)"),
    "collectset_let_scope_contract": dict(kind="bounded", bound="0-2 bindings; entry scope depth 0-2", functions=["CollectSet::visit_let"],
        contract="binding expressions are visited OUTSIDE the scope of the let's variables, the body inside it; scope stack restored"),
    "collectset_set_contract": dict(kind="bounded", bound="target local or not, identifier or not; entry scope depth 0-2", functions=["CollectSet::visit_set"],
        contract="(set! x e): x is added to the global-assignment set iff it is an identifier that no enclosing scope binds (else to the expression-level list); nothing is removed from the set; e is visited"),
}


def run_for(scratch, tier, prop):
    return run_unit(scratch, tier)


def run_unit(scratch, tier):
    crate, meta = build(scratch)
    p = os.path.join(crate, "src/harness.rs")
    write(p, read(p) + "\n#[kani::proof]\n#[kani::unwind(9)]\nfn canary_must_fail() {\n    let mut set = FxHashSet { e: [None; 4] };\n    let (mut c, _d) = collector(&mut set);\n    c.visit_return(&Return { expr: ExprKind::Leaf(1) });\n    assert!(count(1) == 0, \"canary: must be reported as failing\");\n}\n")
    specs = [dict(name=n, kind=o["kind"], contract=o["contract"], functions=o["functions"], bound=o.get("bound")) for n, o in OBS.items()]
    specs.append(dict(name="canary_must_fail", kind="canary", contract="assert that must fail"))
    obs, cmd, out = kani.run_harnesses(crate, specs, NAME, "cset", jobs=5, timeout=3000, harness_timeout="10m",
                                       extra_flags=["--no-assertion-reach-checks"])
    kani.attach_counterexamples(obs, crate, "cset", out)
    return obs, meta, cmd
