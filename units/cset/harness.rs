// Contract harnesses for the CollectSet visitor (unit `cset`). Child module of x_cset.rs.
#![allow(static_mut_refs)]
use super::*;
use crate::prelude::*;

impl<'a> CollectSet<'a> {
    /// CALLEE CONTRACT of the recursive visitor (the trait's dispatching `visit`)
    pub fn visit(&mut self, e: &ExprKind) {
        let id = match e {
            ExprKind::Leaf(i) => *i,
            ExprKind::Ident(s) => 1000 + s.0,
        };
        unsafe {
            if NVISITS < 8 {
                VISITS[NVISITS] = Some(Visit { id, depth: self.scopes.depth, p1_in_scope: self.scopes.contains(&P1), p2_in_scope: self.scopes.contains(&P2) });
            }
            NVISITS += 1;
        }
    }
}

fn reset() {
    unsafe {
        VISITS = [None; 8];
        NVISITS = 0;
    }
}

fn count(id: u32) -> usize {
    let mut c = 0;
    let mut i = 0;
    unsafe {
        while i < 8 && i < NVISITS {
            if let Some(v) = VISITS[i] {
                if v.id == id {
                    c += 1;
                }
            }
            i += 1;
        }
    }
    c
}

fn the(id: u32) -> Visit {
    let mut i = 0;
    unsafe {
        while i < 8 && i < NVISITS {
            if let Some(v) = VISITS[i] {
                if v.id == id {
                    return v;
                }
            }
            i += 1;
        }
    }
    panic!("not visited")
}

/// entry state: depth 0-2, an unrelated name defined in the current layer, the probe names not in scope
fn collector<'a>(set: &'a mut FxHashSet<InternedString>) -> (CollectSet<'a>, usize) {
    reset();
    let depth: usize = kani::any();
    kani::assume(depth <= 2);
    let mut scopes = quickscope::ScopeSet { items: [None; 6], depth, _s: core::marker::PhantomData };
    scopes.define(InternedString(7));
    (CollectSet { set_idents: set, scopes, expr_level_set_idents: smallvec::SmallVec { a: [None; 4], n: 0 } }, depth)
}

fn scope_restored(c: &CollectSet, depth: usize) {
    assert!(c.scopes.depth == depth, "scope stack not restored");
    assert!(c.scopes.contains(&InternedString(7)));
    assert!(!c.scopes.contains(&P1) && !c.scopes.contains(&P2), "a local name leaks out of its scope");
}

fn seq(n: usize) -> ArrVec<ExprKind> {
    ArrVec { a: [Some(ExprKind::Leaf(1)), Some(ExprKind::Leaf(2)), Some(ExprKind::Leaf(3))], n }
}

/// every one of the n sub-expressions reaches the visitor (visiting one twice is harmless: the result is a set)
fn each_once(n: usize) {
    assert!(unsafe { NVISITS } >= n);
    if n >= 1 {
        assert!(count(1) >= 1);
    }
    if n >= 2 {
        assert!(count(2) >= 1);
    }
    if n >= 3 {
        assert!(count(3) >= 1);
    }
}

#[kani::proof]
#[kani::unwind(9)]
fn collectset_visits_every_subexpression_once() {
    let mut set = FxHashSet { e: [None; 4] };
    let which: u8 = kani::any();
    kani::assume(which < 5);
    let n: usize = kani::any();
    kani::assume(n <= 3);
    let (mut c, depth) = collector(&mut set);
    let expected = match which {
        0 => {
            c.visit_if(&If { test_expr: ExprKind::Leaf(1), then_expr: ExprKind::Leaf(2), else_expr: ExprKind::Leaf(3) });
            3
        }
        1 => {
            c.visit_define(&Define { name: ExprKind::Leaf(1), body: ExprKind::Leaf(2) });
            2
        }
        2 => {
            c.visit_begin(&Begin { exprs: seq(n) });
            n
        }
        3 => {
            c.visit_list(&List { args: seq(n) });
            n
        }
        _ => {
            c.visit_return(&Return { expr: ExprKind::Leaf(1) });
            1
        }
    };
    // an assignment can sit in ANY sub-expression: each one is handed to the visitor exactly once,
    // in the scope the node itself was visited in
    each_once(expected);
    let mut i = 0;
    while i < expected {
        assert!(the(i as u32 + 1).depth == depth);
        i += 1;
    }
    scope_restored(&c, depth);
    assert!(c.set_idents.e[0].is_none() && c.expr_level_set_idents.n == 0);
}

#[kani::proof]
#[kani::unwind(9)]
fn collectset_lambda_scope_contract() {
    let mut set = FxHashSet { e: [None; 4] };
    let (mut c, depth) = collector(&mut set);
    let nargs: usize = kani::any();
    kani::assume(nargs <= 2);
    let l = LambdaFunction { args: ArrVec { a: [Some(ExprKind::Ident(P1)), Some(ExprKind::Ident(P2)), None], n: nargs }, body: ExprKind::Leaf(1) };
    c.visit_lambda_function(&l);
    each_once(1);
    let v = the(1);
    // the body is analysed inside a fresh layer that holds exactly the parameters ...
    assert!(v.depth == depth + 1);
    assert!(v.p1_in_scope == (nargs >= 1) && v.p2_in_scope == (nargs >= 2));
    // ... and the layer is gone afterwards: a later set! on a global of the same name is a global assignment
    scope_restored(&c, depth);
}

#[kani::proof]
#[kani::unwind(9)]
fn collectset_let_scope_contract() {
    let mut set = FxHashSet { e: [None; 4] };
    let (mut c, depth) = collector(&mut set);
    let n: usize = kani::any();
    kani::assume(n <= 2);
    let l = Let { bindings: ArrVec { a: [Some((ExprKind::Ident(P1), ExprKind::Leaf(1))), Some((ExprKind::Ident(P2), ExprKind::Leaf(2))), None], n }, body_expr: ExprKind::Leaf(3) };
    c.visit_let(&l);
    assert!(unsafe { NVISITS } >= n + 1);
    // binding expressions are evaluated OUTSIDE the scope of the let's variables
    if n >= 1 {
        assert!(count(1) >= 1 && !the(1).p1_in_scope && !the(1).p2_in_scope);
    }
    if n >= 2 {
        assert!(count(2) >= 1 && !the(2).p1_in_scope && !the(2).p2_in_scope);
    }
    // the body inside it
    assert!(count(3) >= 1);
    let b = the(3);
    assert!(b.p1_in_scope == (n >= 1) && b.p2_in_scope == (n >= 2));
    scope_restored(&c, depth);
}

#[kani::proof]
#[kani::unwind(9)]
fn collectset_set_contract() {
    let mut set = FxHashSet { e: [Some(InternedString(55)), None, None, None] };
    let local: bool = kani::any();
    let is_ident: bool = kani::any();
    let x = InternedString(9);
    let n_local;
    let depth;
    {
        let (mut c, d) = collector(&mut set);
        depth = d;
        if local {
            c.scopes.push_layer();
            c.scopes.define(x);
        }
        let s = Set { variable: if is_ident { ExprKind::Ident(x) } else { ExprKind::Leaf(4) }, expr: ExprKind::Leaf(1), location: SyntaxObject { span: Span } };
        c.visit_set(&s);
        // the right-hand side may contain further assignments
        each_once(1);
        n_local = c.expr_level_set_idents.n;
        if is_ident && local {
            assert!(n_local == 1 && c.expr_level_set_idents.a[0] == Some(x));
        } else {
            assert!(n_local == 0);
        }
        assert!(c.scopes.depth == depth + if local { 1 } else { 0 });
    }
    // an assignment to a name that is not a local of an enclosing scope is recorded as a GLOBAL assignment
    // (the folder must never replace reads of it by its initial value); nothing is ever removed from the set
    assert!(set.contains(&InternedString(55)));
    assert!(set.contains(&x) == (is_ident && !local));
}
