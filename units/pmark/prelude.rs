// Unit `pmark` prelude (TRUSTED, hand written): the payload types the by-reference marker arms
// (`impl BreadthFirstSearchSteelValReferenceVisitor2 for MarkAndSweepContextRefQueue`, values/closed.rs - the
// marker that runs in `sync` builds such as the interpreter binary) read, with the real field names.
//  * `push_back(&SteelVal)` and `save(SteelVal)` are GHOST RECORDERS (which values were handed to the work
//    list / kept alive); the real push_back's leaf filter is unit `heap`
//  * SteelVal reduced to a leaf and one reference-carrying kind (a closure); Gc never frees
//  * im / imbl collections as sequences with the same iteration API (assumed contract)
#![allow(dead_code, unused_variables, unused_imports)]
use core::cell::{Ref, RefCell};

pub struct Gc<T> {
    ptr: *const T,
}
impl<T> Gc<T> {
    pub fn new(v: T) -> Self {
        Gc { ptr: Box::leak(Box::new(v)) as *const T }
    }
}
impl<T> Clone for Gc<T> {
    fn clone(&self) -> Self {
        Gc { ptr: self.ptr }
    }
}
impl<T> core::ops::Deref for Gc<T> {
    type Target = T;
    fn deref(&self) -> &T {
        unsafe { &*self.ptr }
    }
}

#[derive(Clone)]
pub enum SteelVal {
    IntV(isize),
    Void,
    /// a value that may lead to heap handles; the payload identifies it in the harness
    Closure(Gc<ByteCodeLambda>),
}
pub struct ByteCodeLambda {
    pub id: u32,
    pub captures: Vec<SteelVal>,
    pub contract: Option<SteelVal>,
}
impl ByteCodeLambda {
    pub fn captures(&self) -> &[SteelVal] {
        &self.captures
    }
    pub fn get_contract_information(&self) -> Option<SteelVal> {
        self.contract.clone()
    }
}
pub struct MutContainer<T>(pub RefCell<T>);
impl<T> MutContainer<T> {
    pub fn read(&self) -> Ref<'_, T> {
        self.0.borrow()
    }
}

pub struct HashMap<K, V>(pub Vec<(K, V)>);
impl<K, V> HashMap<K, V> {
    pub fn iter(&self) -> impl Iterator<Item = (&K, &V)> {
        self.0.iter().map(|(k, v)| (k, v))
    }
}
pub struct HashSet<T>(pub Vec<T>);
impl<T> HashSet<T> {
    pub fn iter(&self) -> core::slice::Iter<'_, T> {
        self.0.iter()
    }
}
pub struct Vector<T>(pub Vec<T>);
impl<T> Vector<T> {
    pub fn iter(&self) -> core::slice::Iter<'_, T> {
        self.0.iter()
    }
}
pub struct UserDefinedStruct {
    pub fields: Vec<SteelVal>,
}
pub struct LazyStream {
    pub initial_value: SteelVal,
    pub stream_thunk: SteelVal,
}
pub struct Syntax {
    pub raw: Option<SteelVal>,
    pub syntax: SteelVal,
}
pub struct Pair {
    pub car: SteelVal,
    pub cdr: SteelVal,
}
impl Pair {
    pub fn car_ref(&self) -> &SteelVal {
        &self.car
    }
    pub fn cdr_ref(&self) -> &SteelVal {
        &self.cdr
    }
}
pub struct ReducerFunc {
    pub initial_value: SteelVal,
    pub function: SteelVal,
}
pub enum Reducer {
    Sum,
    Multiply,
    Max,
    Min,
    Count,
    Nth(usize),
    List,
    Vector,
    HashMap,
    HashSet,
    String,
    Last,
    ForEach(SteelVal),
    Generic(ReducerFunc),
}
pub enum Transducers {
    Map(SteelVal),
    Filter(SteelVal),
    Take(SteelVal),
    Drop(SteelVal),
    FlatMap(SteelVal),
    Flatten,
    Window(SteelVal),
    TakeWhile(SteelVal),
    DropWhile(SteelVal),
    Extend(SteelVal),
    Cycle,
    Enumerating,
    Zipping(SteelVal),
    Interleaving(SteelVal),
    MapPair(SteelVal),
}
pub struct Transducer {
    pub ops: Vec<Transducers>,
}
pub struct StackFrameAttachments {
    pub handler: Option<SteelVal>,
}
pub struct StackFrame {
    pub function: Gc<ByteCodeLambda>,
    pub attachments: Option<Box<StackFrameAttachments>>,
}
pub struct ClosedContinuation {
    pub stack: Vec<SteelVal>,
    pub current_frame: StackFrame,
    pub stack_frames: Vec<StackFrame>,
}
pub struct OpenContinuationMark;
pub enum ContinuationMark {
    Closed(ClosedContinuation),
    Open(OpenContinuationMark),
}

/// ghost marker context: bit i of `pushed` / `saved` = the closure with id i was handed to push_back / save
pub struct MarkAndSweepContextRefQueue<'a> {
    pub pushed: u64,
    pub saved: u64,
    pub pushes: usize,
    pub _l: core::marker::PhantomData<&'a ()>,
}
impl<'a> MarkAndSweepContextRefQueue<'a> {
    pub fn push_back(&mut self, value: &SteelVal) {
        self.pushes += 1;
        if let SteelVal::Closure(c) = value {
            if c.id < 64 {
                self.pushed |= 1u64 << c.id;
            }
        }
    }
    pub fn save(&mut self, value: SteelVal) {
        if let SteelVal::Closure(c) = &value {
            if c.id < 64 {
                self.saved |= 1u64 << c.id;
            }
        }
    }
}
