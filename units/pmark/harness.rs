// Contract harnesses for the by-reference marker arms (unit `pmark`). Child module of x_closed.rs.
use super::*;
use crate::prelude::*;
use core::cell::RefCell;

fn h(id: u32) -> SteelVal {
    SteelVal::Closure(Gc::new(ByteCodeLambda { id, captures: Vec::new(), contract: None }))
}
fn leaf() -> SteelVal {
    SteelVal::IntV(1)
}
fn ctx<'a>() -> MarkAndSweepContextRefQueue<'a> {
    MarkAndSweepContextRefQueue { pushed: 0, saved: 0, pushes: 0, _l: core::marker::PhantomData }
}
fn frame(caps: Vec<SteelVal>, handler: Option<Option<SteelVal>>) -> StackFrame {
    StackFrame { function: Gc::new(ByteCodeLambda { id: 63, captures: caps, contract: None }), attachments: handler.map(|x| Box::new(StackFrameAttachments { handler: x })) }
}
const fn bits(lo: u32, hi: u32) -> u64 {
    ((1u64 << (hi + 1)) - 1) & !((1u64 << lo) - 1)
}

#[kani::proof]
#[kani::unwind(6)]
fn parallel_marker_continuation_arm_contract() {
    let closed = ClosedContinuation {
        stack: vec![h(0), leaf(), h(1)],
        current_frame: frame(vec![h(2)], None),
        // an ordinary frame (nothing attached), a frame with a handler, a frame with attachments but no handler
        stack_frames: vec![frame(vec![h(3), leaf()], None), frame(vec![h(4)], Some(Some(h(5)))), frame(vec![h(6), h(7)], Some(None))],
    };
    let k = MutContainer(RefCell::new(ContinuationMark::Closed(closed)));
    let mut c = ctx();
    c.visit_continuation(&k);
    // a captured continuation keeps alive: its saved operand stack, the captures of the innermost frame and of
    // EVERY saved frame - with or without attachments - and every attached handler
    assert!(c.pushed == bits(0, 7), "a value reachable only through a captured continuation is not traversed");
    // ... the handler is a temporary clone: the work list holds a pointer to it, so it has to be kept alive
    assert!(c.saved & bits(5, 5) != 0, "a handler of a captured continuation is traversed through a pointer to a temporary that is not kept alive");
    let open = MutContainer(RefCell::new(ContinuationMark::Open(OpenContinuationMark)));
    let mut c = ctx();
    c.visit_continuation(&open);
    assert!(c.pushes == 0);
}

#[kani::proof]
#[kani::unwind(6)]
fn parallel_marker_container_arms_contract() {
    let mut c = ctx();
    c.visit_hash_map(&HashMap(vec![(h(0), leaf()), (leaf(), h(1))]));
    assert!(c.pushed == bits(0, 1) && c.pushes == 4, "hash-map keys and values are both traversed");
    let mut c = ctx();
    c.visit_hash_set(&HashSet(vec![leaf(), h(0)]));
    assert!(c.pushed == bits(0, 0) && c.pushes == 2);
    let mut c = ctx();
    c.visit_immutable_vector(&Vector(vec![h(0), h(1)]));
    assert!(c.pushed == bits(0, 1) && c.pushes == 2);
    let mut c = ctx();
    c.visit_steel_struct(&UserDefinedStruct { fields: vec![h(0), leaf(), h(1)] });
    assert!(c.pushed == bits(0, 1) && c.pushes == 3);
    let mut c = ctx();
    c.visit_stream(&LazyStream { initial_value: h(0), stream_thunk: h(1) });
    assert!(c.pushed == bits(0, 1));
    let mut c = ctx();
    c.visit_pair(&Pair { car: leaf(), cdr: h(0) });
    assert!(c.pushed == bits(0, 0) && c.pushes == 2, "the cdr of a pair is traversed");
    let mut c = ctx();
    c.visit_pair(&Pair { car: h(0), cdr: h(1) });
    assert!(c.pushed == bits(0, 1));
    let mut c = ctx();
    c.visit_boxed_value(&MutContainer(RefCell::new(h(0))));
    assert!(c.pushed == bits(0, 0), "the content of a box is traversed");
    let mut c = ctx();
    c.visit_closure(&ByteCodeLambda { id: 60, captures: vec![h(0), leaf(), h(1)], contract: Some(h(2)) });
    assert!(c.pushed == bits(0, 2), "captured values and the attached contract are traversed");
    let mut c = ctx();
    c.visit_syntax_object(&Syntax { raw: Some(h(0)), syntax: h(1) });
    assert!(c.pushed == bits(0, 1));
    let mut c = ctx();
    c.visit_syntax_object(&Syntax { raw: None, syntax: h(1) });
    assert!(c.pushed == bits(1, 1));
}

#[kani::proof]
#[kani::unwind(6)]
fn parallel_marker_transducer_reducer_arms_contract() {
    let k: u8 = kani::any();
    kani::assume(k < 15);
    let (stage, holds) = match k {
        0 => (Transducers::Map(h(0)), true),
        1 => (Transducers::Filter(h(0)), true),
        2 => (Transducers::Take(h(0)), true),
        3 => (Transducers::Drop(h(0)), true),
        4 => (Transducers::FlatMap(h(0)), true),
        5 => (Transducers::Flatten, false),
        6 => (Transducers::Window(h(0)), true),
        7 => (Transducers::TakeWhile(h(0)), true),
        8 => (Transducers::DropWhile(h(0)), true),
        9 => (Transducers::Extend(h(0)), true),
        10 => (Transducers::Cycle, false),
        11 => (Transducers::Enumerating, false),
        12 => (Transducers::Zipping(h(0)), true),
        13 => (Transducers::Interleaving(h(0)), true),
        _ => (Transducers::MapPair(h(0)), true),
    };
    let mut c = ctx();
    c.visit_transducer(&Transducer { ops: vec![stage, Transducers::Map(h(1))] });
    assert!(c.pushed == if holds { bits(0, 1) } else { bits(1, 1) }, "a value held by a transducer stage is not traversed");
    let mut c = ctx();
    c.visit_reducer(&Reducer::ForEach(h(0)));
    assert!(c.pushed == bits(0, 0));
    let mut c = ctx();
    c.visit_reducer(&Reducer::Generic(ReducerFunc { initial_value: h(0), function: h(1) }));
    assert!(c.pushed == bits(0, 1));
    let mut c = ctx();
    c.visit_reducer(&Reducer::Sum);
    assert!(c.pushes == 0);
}
