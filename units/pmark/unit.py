"""Unit `pmark` (C04, engine E2): the by-reference arms of the marker that runs in `sync` builds (values/closed.rs)."""
import os
import shutil

from vlib.common import REPO, VERIF, read, write, sha256, scan_assumptions
from vlib.extract import Extractor
from vlib import kani

NAME = "pmark"
CLOSED = "crates/steel-core/src/values/closed.rs"
ARMS = ["visit_boxed_value", "visit_closure", "visit_continuation", "visit_hash_map", "visit_hash_set", "visit_immutable_vector", "visit_reducer",
        "visit_steel_struct", "visit_stream", "visit_syntax_object", "visit_transducer", "visit_pair"]


def build(scratch):
    ex = Extractor()
    s, ob, end = ex.impl_range(CLOSED, r"impl<'a> BreadthFirstSearchSteelValReferenceVisitor2<'a> for MarkAndSweepContextRefQueue<'a>")
    arms = [ex.fn(CLOSED, a, within=(ob, end)).replace("-> Self::Output", "-> ()") for a in ARMS]
    for it in ex.items:
        it["edits"] = ["D1", "D3", "`Self::Output` spelled out as `()`"]
    text = "impl<'a> MarkAndSweepContextRefQueue<'a> {\n    " + "\n\n    ".join(arms) + "\n}\n"
    crate = os.path.join(scratch, "pmarkx")
    os.makedirs(os.path.join(crate, "src"))
    shutil.copy(os.path.join(REPO, "Cargo.lock"), os.path.join(crate, "Cargo.lock"))
    write(os.path.join(crate, "Cargo.toml"), "[package]\nname = \"pmarkx\"\nversion = \"0.0.0\"\nedition = \"2021\"\n\n[dependencies]\n\n[workspace]\n\n[lints.rust]\nunexpected_cfgs = { level = \"allow\", check-cfg = ['cfg(kani)'] }\n")
    prelude = read(os.path.join(VERIF, "units/pmark/prelude.rs"))
    harness = read(os.path.join(VERIF, "units/pmark/harness.rs"))
    write(os.path.join(crate, "src/prelude.rs"), prelude)
    write(os.path.join(crate, "src/lib.rs"), "#![allow(dead_code, unused_imports)]\npub mod prelude;\npub mod values {\n    pub use crate::prelude::{HashMap, HashSet};\n    pub mod transducers { pub use crate::prelude::Transducers; }\n    pub mod lists { pub use crate::prelude::Pair; }\n    pub mod x_closed;\n}\n")
    os.makedirs(os.path.join(crate, "src/values"))
    write(os.path.join(crate, "src/values/x_closed.rs"), "#![allow(dead_code, unused_imports, unused_variables, unused_mut)]\nuse crate::prelude::*;\n\n" + text
          + "\n#[cfg(kani)]\n#[path = \"../harness.rs\"]\nmod harness;\n")
    write(os.path.join(crate, "src/harness.rs"), harness)
    meta = {"unit": NAME, "engine": "E2: verbatim item extraction into a mini crate + Kani", "items": ex.items,
            "prelude": "units/pmark/prelude.rs", "prelude_sha256": sha256(prelude), "harness_sha256": sha256(harness),
            "extractor_edits": "D1; D3 (the arms of the trait impl are put into an inherent impl, `Self::Output` spelled out as `()`; the extracted module sits at crate::values so that `super::HashMap`, `super::lists::Pair` resolve as in the real file)",
            "assumption_scan": scan_assumptions(harness, "units/pmark/harness.rs") + scan_assumptions(prelude, "units/pmark/prelude.rs")}
    return crate, meta


OBS = {
    "parallel_marker_continuation_arm_contract": dict(kind="bounded", bound="captured stack of 3 values, the innermost frame + 3 saved frames (no attachments / a handler / attachments without handler) capturing 1-2 values each", functions=["MarkAndSweepContextRefQueue::visit_continuation"],
        contract="a captured (closed) continuation keeps alive every value of its saved operand stack, every value captured by the function of EVERY saved frame - with or without attachments - and of the innermost frame, and every attached handler: each is handed to the work list (the handler, a temporary clone, is also kept alive); an open continuation contributes nothing (its frames are still on the live stack)"),
    "parallel_marker_container_arms_contract": dict(kind="bounded", bound="containers of 2-3 children (closures and leaves)", functions=["MarkAndSweepContextRefQueue::visit_hash_map", "visit_hash_set", "visit_immutable_vector", "visit_steel_struct", "visit_stream", "visit_pair", "visit_boxed_value", "visit_closure", "visit_syntax_object"],
        contract="every child is handed to the work list: keys and values of maps, both halves of a pair, fields, elements, boxed content, captured values and the attached contract of a closure, datum and raw datum of a syntax object"),
    "parallel_marker_transducer_reducer_arms_contract": dict(kind="bounded", bound="one stage of every transducer kind; ForEach / Generic / Sum reducers", functions=["MarkAndSweepContextRefQueue::visit_transducer", "MarkAndSweepContextRefQueue::visit_reducer"],
        contract="every value held by a transducer stage and by a reducer (function and initial value) is handed to the work list"),
}


def run_for(scratch, tier, prop):
    return run_unit(scratch, tier)


def run_unit(scratch, tier):
    crate, meta = build(scratch)
    p = os.path.join(crate, "src/harness.rs")
    write(p, read(p) + "\n#[kani::proof]\n#[kani::unwind(6)]\nfn canary_must_fail() {\n    let mut c = ctx();\n    c.visit_pair(&Pair { car: h(0), cdr: h(1) });\n    assert!(c.pushes == 0, \"canary: must be reported as failing\");\n}\n")
    specs = [dict(name=n, kind=o["kind"], contract=o["contract"], functions=o["functions"], bound=o.get("bound")) for n, o in OBS.items()]
    specs.append(dict(name="canary_must_fail", kind="canary", contract="assert that must fail"))
    obs, cmd, out = kani.run_harnesses(crate, specs, NAME, "pmark", jobs=4, timeout=3000, harness_timeout="10m",
                                       extra_flags=["--no-assertion-reach-checks"])
    kani.attach_counterexamples(obs, crate, "pmark", out)
    return obs, meta, cmd
