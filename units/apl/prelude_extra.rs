
// ===== unit `apl` additions to the vm prelude (TRUSTED, hand written) =========================================
// The two call handlers are the CALLEE CONTRACTS of `apply` here (their own contracts are unit `vm`):
// they record which one was entered, with which closure / argument count, at which ip and operand stack.
pub type FunctionSignature = fn(&[SteelVal]) -> Result<SteelVal>;
pub type MutFunctionSignature = fn(&mut [SteelVal]) -> Result<SteelVal>;
pub type BuiltInSignature = for<'a, 'b> fn(&'a mut VmCore<'b>, &[SteelVal]) -> Option<Result<SteelVal>>;
#[derive(Debug)]
pub struct BoxedDynFunction {
    pub f: FunctionSignature,
}
impl BoxedDynFunction {
    pub fn func(&self) -> FunctionSignature {
        self.f
    }
}
#[derive(Clone, Debug)]
pub struct Continuation;
impl Continuation {
    pub fn set_state_from_continuation(_ctx: &mut VmCore, _k: Continuation) {
        unsafe { CONT_CALLS += 1 };
    }
}
impl SteelErr {
    pub fn has_span(&self) -> bool {
        false
    }
}
macro_rules! builtin_stop {
    ($type:ident => $($rest:tt)+) => {
        return Some(Err($crate::prelude::SteelErr { kind: $crate::prelude::ErrorKind::$type }))
    };
}
pub(crate) use builtin_stop;

impl<T: Clone> List<T> {
    pub fn cons(v: T, l: List<T>) -> List<T> {
        let mut n = Vec::with_capacity(l.0.len() + 1);
        n.push(v);
        let mut i = 0;
        while i < l.0.len() {
            n.push(l.0[i].clone());
            i += 1;
        }
        List(Gc::new(n))
    }
    pub fn iter(&self) -> core::slice::Iter<'_, T> {
        self.0.iter()
    }
    pub fn len(&self) -> usize {
        self.0.len()
    }
}
impl<'a, T> IntoIterator for &'a List<T> {
    type Item = &'a T;
    type IntoIter = core::slice::Iter<'a, T>;
    fn into_iter(self) -> Self::IntoIter {
        self.0.iter()
    }
}

pub static mut TAIL_CALLS: u32 = 0;
pub static mut FUNC_CALLS: u32 = 0;
pub static mut CONT_CALLS: u32 = 0;
pub static mut CALLED_ID: u32 = 0;
pub static mut CALLED_ARGC: usize = 0;
pub static mut CALLED_IP: usize = 0;
pub static mut CALLED_STACK_LEN: usize = 0;
pub static mut CALLEE_RESULT_IS_ERR: bool = false;
impl<'a> VmCore<'a> {
    unsafe fn record(&mut self, closure: &Gc<ByteCodeLambda>, payload_size: usize) -> Result<()> {
        CALLED_ID = closure.id;
        CALLED_ARGC = payload_size;
        CALLED_IP = self.ip;
        CALLED_STACK_LEN = self.thread.stack.len();
        if CALLEE_RESULT_IS_ERR {
            Err(SteelErr { kind: ErrorKind::ArityMismatch })
        } else {
            Ok(())
        }
    }
    /// callee contract (unit vm): re-uses the current frame
    pub fn new_handle_tail_call_closure(&mut self, closure: Gc<ByteCodeLambda>, payload_size: usize) -> Result<()> {
        unsafe {
            TAIL_CALLS += 1;
            self.record(&closure, payload_size)
        }
    }
    /// callee contract (unit vm): pushes exactly one frame that returns to ip + 1
    pub fn handle_function_call_closure(&mut self, closure: Gc<ByteCodeLambda>, payload_size: usize) -> Result<()> {
        unsafe {
            FUNC_CALLS += 1;
            self.record(&closure, payload_size)
        }
    }
}
