// Contract harnesses for the builtin `apply` (unit `apl`; child of x_vm)
#![allow(unused_imports, dead_code, static_mut_refs)]
use super::*;
use crate::prelude::*;

fn reset() {
    unsafe {
        TAIL_CALLS = 0;
        FUNC_CALLS = 0;
        CONT_CALLS = 0;
        CALLED_ID = 0;
        CALLED_ARGC = 0;
        CALLED_IP = 0;
        CALLED_STACK_LEN = 0;
        CALLEE_RESULT_IS_ERR = false;
    }
}

fn code(at_ip_minus_1: OpCode) -> RootedInstructions {
    RootedInstructions::leak(vec![
        DenseInstruction::new(OpCode::PUSH, u24::from_u32(0)),
        DenseInstruction::new(OpCode::VOID, u24::from_u32(0)),
        DenseInstruction::new(at_ip_minus_1, u24::from_u32(3)),
        DenseInstruction::new(OpCode::POPPURE, u24::from_u32(0)),
    ])
}

/// (apply f a (list b c)) with f a closure, reached through the call instruction `op` at ip-1
#[kani::proof]
#[kani::unwind(6)]
fn apply_closure_tail_position_contract() {
    reset();
    let k: u8 = kani::any();
    kani::assume(k < 8);
    // the call instruction that invoked `apply`: the three tail-call forms and the non-tail forms
    let (op, tail) = match k {
        0 => (OpCode::TAILCALL, true),
        1 => (OpCode::CALLGLOBALTAIL, true),
        2 => (OpCode::CALLGLOBALTAILNOARITY, true),
        3 => (OpCode::FUNC, false),
        4 => (OpCode::FUNCNOARITY, false),
        5 => (OpCode::CALLGLOBAL, false),
        6 => (OpCode::CALLGLOBALNOARITY, false),
        _ => (OpCode::CALLPRIMITIVE, false),
    };
    let ins = code(op);
    let f = Gc::new(ByteCodeLambda { id: 41, arity: 3, is_multi_arity: false, body: ins });
    let (x, a, b, c): (isize, isize, isize, isize) = (kani::any(), kani::any(), kani::any(), kani::any());
    let callee_fails: bool = kani::any();
    unsafe { CALLEE_RESULT_IS_ERR = callee_fails };
    let args = [SteelVal::Closure(f.clone()), SteelVal::IntV(a), SteelVal::ListV(List(Gc::new(vec![SteelVal::IntV(b), SteelVal::IntV(c)])))];
    let mut t = SteelThread { stack: vec![SteelVal::IntV(x)], stack_frames: FrameStack { older: 1, top: Vec::new() } };
    let r = {
        let mut vm = VmCore { is_native: false, ip: 3, sp: 0, thread: &mut t, instructions: ins, pop_count: 1, depth: 0, result: None, ghost_slow_calls: 0 };
        apply(&mut vm, &args)
    };
    unsafe {
        // exactly the spread arguments, in order, above what was there: every call receives exactly its arguments
        assert!(CALLED_STACK_LEN == 4 && CALLED_ARGC == 3 && CALLED_ID == 41);
        assert!(matches!(t.stack[0], SteelVal::IntV(v) if v == x) && matches!(t.stack[1], SteelVal::IntV(v) if v == a)
            && matches!(t.stack[2], SteelVal::IntV(v) if v == b) && matches!(t.stack[3], SteelVal::IntV(v) if v == c));
        if tail {
            // apply in tail position re-uses the frame: a loop whose tail is (apply f args) runs in constant space
            assert!(TAIL_CALLS == 1 && FUNC_CALLS == 0, "apply in tail position pushes a frame");
            assert!(CALLED_IP == 3);
        } else {
            // a non-tail apply returns to the instruction after the call
            assert!(FUNC_CALLS == 1 && TAIL_CALLS == 0, "apply in non-tail position re-uses the caller's frame");
            assert!(CALLED_IP == 2, "the frame pushed for a non-tail apply does not return to the call site");
        }
    }
    match r {
        None => assert!(!callee_fails),
        Some(Err(e)) => assert!(callee_fails && e.kind == ErrorKind::ArityMismatch),
        Some(Ok(_)) => assert!(false),
    }
}

fn host_sum(args: &[SteelVal]) -> Result<SteelVal> {
    let mut s = 0isize;
    let mut i = 0;
    while i < args.len() {
        if let SteelVal::IntV(v) = &args[i] {
            s = s.wrapping_mul(31).wrapping_add(*v);
        }
        i += 1;
    }
    Ok(SteelVal::IntV(s))
}

/// (apply host-fn a (list b)) hands exactly (a b) to the host function; mistyped operands are error values
#[kani::proof]
#[kani::unwind(6)]
fn apply_host_function_and_errors_contract() {
    reset();
    let ins = code(OpCode::FUNC);
    let (a, b): (isize, isize) = (kani::any(), kani::any());
    let mut t = SteelThread { stack: vec![SteelVal::IntV(7)], stack_frames: FrameStack { older: 1, top: Vec::new() } };
    let mut vm = VmCore { is_native: false, ip: 3, sp: 0, thread: &mut t, instructions: ins, pop_count: 1, depth: 0, result: None, ghost_slow_calls: 0 };
    let lst = SteelVal::ListV(List(Gc::new(vec![SteelVal::IntV(b)])));
    let r = apply(&mut vm, &[SteelVal::FuncV(host_sum), SteelVal::IntV(a), lst.clone()]);
    assert!(matches!(r, Some(Ok(SteelVal::IntV(v))) if v == (0isize.wrapping_mul(31).wrapping_add(a)).wrapping_mul(31).wrapping_add(b)));
    // not a list / not a function: error values, nothing called, operand stack untouched
    let r = apply(&mut vm, &[SteelVal::FuncV(host_sum), SteelVal::IntV(a), SteelVal::IntV(b)]);
    assert!(matches!(r, Some(Err(e)) if e.kind == ErrorKind::TypeMismatch));
    let r = apply(&mut vm, &[SteelVal::IntV(a), lst]);
    assert!(matches!(r, Some(Err(e)) if e.kind == ErrorKind::TypeMismatch));
    assert!(vm.thread.stack.len() == 1 && vm.ip == 3);
    unsafe { assert!(TAIL_CALLS == 0 && FUNC_CALLS == 0) };
}
