"""Unit `apl` (C09, C01; engine E2): the builtin `apply` (steel_vm/vm.rs) - tail position and argument spreading."""
import os
import re
import shutil

from vlib.common import REPO, VERIF, AnchorLost, read, write, sha256, scan_assumptions
from vlib.extract import Extractor
from vlib import kani

NAME = "apl"
VM = "crates/steel-core/src/steel_vm/vm.rs"
INSTR = "crates/steel-core/src/core/instructions.rs"
RVALS = "crates/steel-core/src/rvals.rs"


def build(scratch):
    ex = Extractor()
    frame = ["#[derive(Debug, Clone)]\n" + ex.item(VM, "struct", "StackFrame")]
    apply_fn = ex.fn(VM, "apply")
    is_fn = "impl SteelVal {\n    " + ex.fn(RVALS, "is_function") + "\n}"
    ins = ["#[derive(Copy, Clone, Debug, PartialEq, Eq, Hash)] // real: + Serialize, Deserialize\n" + ex.item(INSTR, "struct", "DenseInstruction"),
           "#[derive(Copy, Clone, PartialEq, PartialOrd, Eq, Ord, Hash, Debug)]\n#[allow(non_camel_case_types)]\n#[repr(transparent)]\n" + ex.item(INSTR, "struct", "u24"),
           ex.impl_block(INSTR, r"impl Add for u24"), ex.impl_block(INSTR, r"impl u24"), ex.impl_block(INSTR, r"impl DenseInstruction")]
    allow = "#![allow(dead_code, unused_imports, unused_variables, unreachable_patterns, unused_mut, unused_parens, unreachable_code)]\n"
    crate = os.path.join(scratch, "aplx")
    os.makedirs(os.path.join(crate, "src"))
    shutil.copy(os.path.join(REPO, "Cargo.lock"), os.path.join(crate, "Cargo.lock"))
    write(os.path.join(crate, "Cargo.toml"), f"""[package]
name = "aplx"
version = "0.0.0"
edition = "2021"

[features]
default = ["jit2"]
jit2 = []

[dependencies]
steel-gen = {{ path = "{REPO}/crates/steel-gen" }}

[workspace]

[lints.rust]
unexpected_cfgs = {{ level = "allow", check-cfg = ['cfg(kani)'] }}
""")
    base = read(os.path.join(VERIF, "units/vm/prelude.rs"))
    anchor = "pub enum SteelVal {\n    BoolV(bool),"
    if base.count(anchor) != 1:
        raise AnchorLost("units/vm/prelude.rs: SteelVal enum anchor not found")
    base = base.replace(anchor, "pub enum SteelVal {\n    FuncV(FunctionSignature),\n    MutFunc(MutFunctionSignature),\n    BoxedFunction(Gc<BoxedDynFunction>),\n    BuiltIn(BuiltInSignature),\n    ContinuationFunction(Continuation),\n    BoolV(bool),")
    extra = read(os.path.join(VERIF, "units/apl/prelude_extra.rs"))
    prelude = base + extra
    harness = read(os.path.join(VERIF, "units/apl/harness.rs"))
    write(os.path.join(crate, "src/prelude.rs"), prelude)
    write(os.path.join(crate, "src/x_instructions.rs"), allow + "use crate::prelude::OpCode;\nuse core::ops::Add;\n\n" + "\n\n".join(ins) + "\n")
    write(os.path.join(crate, "src/x_vm.rs"), allow + "use crate::prelude::*;\nuse crate::prelude::SteelVal::*;\nuse crate::prelude::{format, stop, log, builtin_stop};\n\n" + "\n\n".join(frame)
          + "\n\n" + apply_fn + "\n\n" + is_fn + "\n\n#[cfg(kani)]\n#[path = \"harness.rs\"]\nmod harness;\n")
    write(os.path.join(crate, "src/harness.rs"), harness)
    write(os.path.join(crate, "src/lib.rs"), "#![allow(dead_code, unused_imports, unused_macros, static_mut_refs)]\n#[macro_use]\npub mod prelude;\n"
          "pub mod core { pub mod instructions { pub use crate::prelude::core_instructions::pretty_print_dense_instructions; } }\n"
          "pub mod x_instructions;\npub mod x_vm;\n")
    meta = {"unit": NAME, "engine": "E2: verbatim item extraction into a mini crate + Kani", "items": ex.items,
            "prelude": "units/vm/prelude.rs (+ five function-valued SteelVal variants inserted) + units/apl/prelude_extra.rs", "prelude_sha256": sha256(prelude), "harness_sha256": sha256(harness),
            "extractor_edits": "D1 (the #[steel_derive::context] attribute of apply is not copied)",
            "assumption_scan": scan_assumptions(harness, "units/apl/harness.rs") + scan_assumptions(extra, "units/apl/prelude_extra.rs")}
    return crate, meta


OBS = {
    "apply_closure_tail_position_contract": dict(kind="bounded", bound="one leading argument + a list of two; operand stack of one value; the call instruction at ip-1 ranges over TAILCALL, CALLGLOBALTAIL, CALLGLOBALTAILNOARITY, FUNC, FUNCNOARITY, CALLGLOBAL, CALLGLOBALNOARITY, CALLPRIMITIVE", functions=["apply", "SteelVal::is_function"],
        contract="(apply f a lst) with f a closure: exactly a followed by the elements of lst, in order, are pushed above the existing operands and the closure is entered with that argument count; when the instruction that invoked apply (at ip-1) is a tail call the frame is RE-USED (new_handle_tail_call_closure: a loop whose tail is (apply f args) runs in constant space), otherwise exactly one frame is pushed that returns to the call site; the callee's arity error is returned as an error value"),
    "apply_host_function_and_errors_contract": dict(kind="bounded", bound="one leading argument + a list of one", functions=["apply"],
        contract="a host function receives exactly the spread arguments; a last argument that is not a list, or an operator that is not a function, is a TypeMismatch error value with the operand stack and ip untouched and nothing called"),
}


def run_for(scratch, tier, prop):
    return run_unit(scratch, tier)


def run_unit(scratch, tier):
    crate, meta = build(scratch)
    p = os.path.join(crate, "src/harness.rs")
    write(p, read(p) + "\n#[kani::proof]\n#[kani::unwind(6)]\nfn canary_must_fail() {\n    reset();\n    let ins = code(OpCode::FUNC);\n    let mut t = SteelThread { stack: vec![SteelVal::IntV(7)], stack_frames: FrameStack { older: 1, top: Vec::new() } };\n    let mut vm = VmCore { is_native: false, ip: 3, sp: 0, thread: &mut t, instructions: ins, pop_count: 1, depth: 0, result: None, ghost_slow_calls: 0 };\n    let r = apply(&mut vm, &[SteelVal::IntV(1), SteelVal::IntV(2)]);\n    assert!(r.is_none(), \"canary: must be reported as failing\");\n}\n")
    specs = [dict(name=n, kind=o["kind"], contract=o["contract"], functions=o["functions"], bound=o.get("bound")) for n, o in OBS.items()]
    specs.append(dict(name="canary_must_fail", kind="canary", contract="assert that must fail"))
    obs, cmd, out = kani.run_harnesses(crate, specs, NAME, "apl", jobs=3, timeout=3000, harness_timeout="10m",
                                       extra_flags=["--no-assertion-reach-checks", "--no-overflow-checks"])
    kani.attach_counterexamples(obs, crate, "apl", out)
    return obs, meta, cmd
