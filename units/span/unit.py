"""Unit `span` (C12, engine E3): crates/steel-parser/src/span.rs under Verus, contracts injected at the signatures."""
import os

from vlib.common import VERIF, AnchorLost, read, write, sha256
from vlib.extract import Extractor
from vlib import verus

NAME = "span"
SPAN = "crates/steel-parser/src/span.rs"

CONTRACTS = {
    "new": (["ensures r.start == start, r.end == end, r.source_id == source_id,"], "ensures the three fields are exactly the arguments"),
    "double": (["ensures r.start == span, r.end == span, r.source_id == source_id,"], "an empty span at `span`"),
    "start": (["ensures r == self.start,"], "getter"),
    "end": (["ensures r == self.end,"], "getter"),
    "source_id": (["ensures r == self.source_id,"], "getter"),
    "merge": (["ensures r.start == start.start, r.end == end.end, r.source_id == start.source_id,"],
              "from the start of the first to the end of the second: inside the text if both are, well formed if start.start <= end.end"),
    "width": (["requires self.start <= self.end,", "ensures r == self.end - self.start,"], "requires a well-formed span (caller obligation); no underflow"),
    "coalesce_span": ([
        "ensures",
        "    spans@.len() == 0 ==> r.start == 0 && r.end == 0,",
        "    forall|i: int| 0 <= i < spans@.len() ==> r.start <= spans@[i].start && r.end >= spans@[i].end,",
        "    spans@.len() > 0 ==> exists|a: int| 0 <= a < spans@.len() && r.start == spans@[a].start,",
        "    spans@.len() > 0 ==> exists|b: int| 0 <= b < spans@.len() && r.end == spans@[b].end,",
    ], "the result is the tight hull of the arguments: it contains every span, starts where one of them starts and ends where one of them ends (so it lies inside the text if they all do); for ANY number of spans (loop invariant, no bound)"),
}
COALESCE_INV = [
    "spans@.len() > 0,",
    "forall|i: int| 0 <= i < it.index@ ==> span.start <= spans@[i].start && span.end >= spans@[i].end,",
    "exists|a: int| 0 <= a < spans@.len() && span.start == spans@[a].start,",
    "exists|b: int| 0 <= b < spans@.len() && span.end == spans@[b].end,",
]


def run_unit(scratch, tier):
    ex = Extractor()
    struct = ex.item(SPAN, "struct", "Span")
    for f in ["pub start: u32", "pub end: u32", "pub source_id: Option<SourceId>"]:
        if f not in struct:
            raise AnchorLost("Span fields changed")
    s, ob, end = ex.impl_range(SPAN, r"impl Span")
    fns = []
    for name, (spec, _) in CONTRACTS.items():
        t = ex.fn(SPAN, name, within=(ob, end))
        t = verus.inject_fn_contract(t, spec)
        if name == "coalesce_span":
            t = verus.inject_loop_invariant(t, 0, COALESCE_INV)
            ex.items[-1]["edits"] = ["D1", "D4"]
        fns.append(t)
    text = ("use vstd::prelude::*;\nverus! {\n// prelude: the real SourceId is `pub struct SourceId(pub(crate) u32)` in parser.rs\n"
            "#[derive(Copy, Clone, PartialEq, Eq)]\npub struct SourceId(pub u32);\n\n#[derive(Copy, Clone)] // real: + PartialEq, Eq, PartialOrd, Ord, Hash, Serialize, Deserialize, Default\n"
            + struct + "\n\nimpl Span {\n    " + "\n\n    ".join(fns) + "\n}\n\n"
            "// vacuity canary: must be REJECTED by the verifier\nproof fn canary_must_fail()\n    ensures false,\n{\n}\n} // verus!\nfn main() {}\n")
    path = os.path.join(scratch, "span_unit.rs")
    write(path, text)
    specs = {n: dict(kind="proof", contract=c[1] + " :: " + " ".join(c[0]), functions=["Span::" + n]) for n, c in CONTRACTS.items()}
    specs["canary_must_fail"] = dict(kind="canary", contract="proof fn canary() ensures false {}")
    obs, cmd, out = verus.run_verus(path, NAME, specs)
    meta = {"unit": NAME, "engine": "E3: verbatim extraction + Verus", "items": ex.items,
            "extractor_edits": "D1; result names `-> (r: T)` and requires/ensures inserted after each signature; D4 (`for s in spans` -> `for s in it: spans` + invariant); bodies untouched; range()/usize_range() not included (`as _` casts)",
            "generated_sha256": sha256(text), "assumption_scan": []}
    return obs, meta, cmd
