// Contract harnesses for the constant folder's `if` decision (unit `cev`). Child module of x_cev.rs.
use super::*;
use crate::prelude::*;
use crate::x_tokens::*;
use core::mem::ManuallyDrop;

pub fn atom(ty: TokenType<InternedString>) -> ExprKind {
    ExprKind::Atom(Atom { syn: RawSyntaxObject { ty, span: Span { start: 0, end: 1 }, syntax_object_id: SyntaxObjectId(1) } })
}

pub fn evaluator<'a>(bound: Option<SteelVal>, set_idents: &'a FxHashSet<InternedString>, expr_level: &'a [InternedString], opt: OptLevel,
                     mt: &'a mut MemoizationTable, k: &'a mut Option<Kernel>) -> ConstantEvaluator<'a> {
    ConstantEvaluator {
        bindings: Rc::new(RefCell::new(ConstantEnv { bound, lookups: 0, unbinds: 0, visited: [0; 4], nvisited: 0 })),
        set_idents,
        expr_level_set_idents: expr_level,
        changed: false,
        opt_level: opt,
        _memoization_table: mt,
        kernel: k,
        scope_contains_define: false,
    }
}

/// every token kind with every payload
fn any_token() -> TokenType<InternedString> {
    let k: u8 = kani::any();
    kani::assume(k < 33);
    let paren = match kani::any::<u8>() % 3 {
        0 => Paren::Round,
        1 => Paren::Square,
        _ => Paren::Curly,
    };
    let pm = match kani::any::<u8>() % 3 {
        0 => None,
        1 => Some(ParenMod::Vector),
        _ => Some(ParenMod::Bytes),
    };
    match k {
        0 => TokenType::OpenParen(paren, pm),
        1 => TokenType::CloseParen(paren),
        2 => TokenType::QuoteTick,
        3 => TokenType::QuasiQuote,
        4 => TokenType::Unquote,
        5 => TokenType::UnquoteSplice,
        6 => TokenType::QuoteSyntax,
        7 => TokenType::QuasiQuoteSyntax,
        8 => TokenType::UnquoteSyntax,
        9 => TokenType::UnquoteSpliceSyntax,
        10 => TokenType::If,
        11 => TokenType::Define,
        12 => TokenType::Let,
        13 => TokenType::TestLet,
        14 => TokenType::Return,
        15 => TokenType::Begin,
        16 => TokenType::Lambda,
        17 => TokenType::Quote,
        18 => TokenType::SyntaxRules,
        19 => TokenType::DefineSyntax,
        20 => TokenType::Ellipses,
        21 => TokenType::Set,
        22 => TokenType::Require,
        23 => TokenType::CharacterLiteral(kani::any()),
        24 => TokenType::DatumComment,
        25 => TokenType::Comment,
        26 => TokenType::BooleanLiteral(kani::any()),
        27 => TokenType::Identifier(InternedString(kani::any())),
        28 => TokenType::Keyword(InternedString(kani::any())),
        29 => TokenType::Number(InternedNumber::ghost(kani::any())),
        30 => TokenType::StringLiteral(InternedString(kani::any())),
        _ => TokenType::Dot,
    }
}

fn any_value() -> SteelVal {
    match kani::any::<u8>() % 4 {
        0 => SteelVal::BoolV(kani::any()),
        1 => SteelVal::IntV(kani::any()),
        2 => SteelVal::Void,
        _ => SteelVal::Other(kani::any()),
    }
}

/// reference semantics: Some(truthiness) if the token, read as an expression, has a value that is
/// known at compile time; None if it has no compile-time value (unbound / assigned identifier) or is
/// not an expression at all
fn reference_value_truthy(t: &TokenType<InternedString>, bound: Option<SteelVal>, assigned: bool) -> Option<bool> {
    match t {
        TokenType::BooleanLiteral(b) => Some(*b),
        TokenType::Number(_) | TokenType::StringLiteral(_) | TokenType::CharacterLiteral(_) | TokenType::Keyword(_) => Some(true),
        TokenType::Identifier(_) => {
            if assigned {
                None
            } else {
                match bound {
                    Some(SteelVal::BoolV(false)) => Some(false),
                    Some(_) => Some(true),
                    None => None,
                }
            }
        }
        _ => None,
    }
}

/// a quoted datum is never #f unless it is the literal #f
fn reference_datum_truthy(t: &TokenType<InternedString>) -> bool {
    !matches!(t, TokenType::BooleanLiteral(false))
}

#[kani::proof]
#[kani::unwind(4)]
fn if_test_atom_folding_contract() {
    let t = any_token();
    let bound = if kani::any() { Some(any_value()) } else { None };
    let name = match t {
        TokenType::Identifier(s) => s,
        _ => InternedString(0),
    };
    // the identifier may be assigned somewhere (globally or in this expression)
    let assigned_globally: bool = kani::any();
    let assigned_locally: bool = kani::any();
    let si = FxHashSet { e: [if assigned_globally { Some(name) } else { None }, Some(InternedString(kani::any()))] };
    let other = InternedString(kani::any());
    let locals = [if assigned_locally { name } else { other }];
    let assigned = matches!(t, TokenType::Identifier(_)) && (si.get(&name).is_some() || locals[0] == name);
    let mut mt = MemoizationTable;
    let mut k = None;
    let ev = evaluator(bound, &si, &locals, OptLevel::Three, &mut mt, &mut k);
    let e = ManuallyDrop::new(atom(t));
    let c = ev.is_constant(&e);
    if c {
        let r = reference_value_truthy(&t, bound, assigned);
        assert!(r.is_some(), "only an expression with a compile-time value may be treated as constant");
        // the binding may have been dropped by is_constant itself only for assigned identifiers, which are not constant
        let tr = ev.is_truthy_constant(&e);
        assert!(Some(tr) == r, "the folded branch is the one the value selects");
    }
    if assigned {
        assert!(!c, "an assigned identifier is not a constant");
    }
    kani::cover!(c && matches!(t, TokenType::Keyword(_)));
    kani::cover!(c && matches!(t, TokenType::Identifier(_)));
    kani::cover!(!c && matches!(t, TokenType::Define));
}

#[kani::proof]
#[kani::unwind(4)]
fn if_test_quote_folding_contract() {
    let is_list: bool = kani::any();
    let t = any_token();
    let q = ManuallyDrop::new(Quote { expr: if is_list { ExprKind::List(List { args: [kani::any(), kani::any()] }) } else { atom(t) } });
    let e = ManuallyDrop::new(ExprKind::Quote(Bx::of(&q)));
    let bound = if kani::any() { Some(any_value()) } else { None };
    let si = FxHashSet { e: [None, Some(InternedString(kani::any()))] };
    let locals = [InternedString(kani::any())];
    let mut mt = MemoizationTable;
    let mut k = None;
    let ev = evaluator(bound, &si, &locals, OptLevel::Three, &mut mt, &mut k);
    if ev.is_constant(&e) {
        let tr = ev.is_truthy_constant(&e);
        let r = if is_list { true } else { reference_datum_truthy(&t) };
        assert!(tr == r, "a quoted datum other than #f selects the then-branch");
    }
    kani::cover!(!is_list && ev.is_constant(&e));
}

/// callee contract of the recursive folder: hands back the expression it was given (what it does
/// to sub-expressions is decided by the obligations on those), recording the order of the calls
impl<'a> ConstantEvaluator<'a> {
    pub fn visit(&mut self, e: ExprKind) -> Result<ExprKind> {
        let id = match &e {
            ExprKind::Atom(a) => a.syn.syntax_object_id.0,
            _ => 0,
        };
        let mut env = self.bindings.borrow_mut();
        let n = env.nvisited;
        if n < 4 {
            env.visited[n] = id;
        }
        env.nvisited = n + 1;
        Ok(e)
    }
}

fn atom_id(ty: TokenType<InternedString>, id: u32) -> ExprKind {
    ExprKind::Atom(Atom { syn: RawSyntaxObject { ty, span: Span { start: 0, end: 1 }, syntax_object_id: SyntaxObjectId(id) } })
}
fn id_of(e: &ExprKind) -> u32 {
    match e {
        ExprKind::Atom(a) => a.syn.syntax_object_id.0,
        _ => 0,
    }
}

#[kani::proof]
#[kani::unwind(4)]
fn visit_if_folding_contract() {
    // representatives of the classes the two predicates distinguish (the predicates themselves are
    // proved for every token kind above)
    let t = match kani::any::<u8>() % 6 {
        0 => TokenType::BooleanLiteral(kani::any()),
        1 => TokenType::Keyword(InternedString(kani::any())),
        2 => TokenType::Identifier(InternedString(kani::any())),
        3 => TokenType::Number(InternedNumber::ghost(kani::any())),
        4 => TokenType::Define,
        _ => TokenType::Ellipses,
    };
    let bound = if kani::any() { Some(any_value()) } else { None };
    let si = FxHashSet { e: [None, None] };
    let mut mt = MemoizationTable;
    let mut k = None;
    let opt = match kani::any::<u8>() % 4 {
        0 => OptLevel::Zero,
        1 => OptLevel::One,
        2 => OptLevel::Two,
        _ => OptLevel::Three,
    };
    let mut ev = evaluator(bound, &si, &[], opt, &mut mt, &mut k);
    let loc = RawSyntaxObject { ty: TokenType::If, span: Span { start: 0, end: 9 }, syntax_object_id: SyntaxObjectId(9) };
    let f = Box::new(If { test_expr: atom_id(t, 1), then_expr: atom_id(TokenType::BooleanLiteral(true), 2), else_expr: atom_id(TokenType::BooleanLiteral(false), 3), location: loc });
    let r = ev.visit_if(f);
    let r = ManuallyDrop::new(match r {
        Ok(x) => x,
        Err(_) => {
            assert!(false, "folding an if never fails");
            unreachable!()
        }
    });
    let reference = reference_value_truthy(&t, bound, false);
    match &*r {
        ExprKind::If(i) => {
            assert!(id_of(&i.test_expr) == 1 && id_of(&i.then_expr) == 2 && id_of(&i.else_expr) == 3, "kept: all three parts in place");
        }
        other => {
            assert!(opt == OptLevel::Three, "no folding below OptLevel::Three");
            assert!(reference.is_some(), "folded only when the test has a compile-time value");
            assert!(id_of(other) == if reference.unwrap() { 2 } else { 3 }, "replaced by the branch the value selects");
        }
    }
    kani::cover!(!matches!(&*r, ExprKind::If(_)));
}


// ------------------------------------------------------------------ opt.rs: PruneConstantIfBranches
#[kani::proof]
#[kani::unwind(4)]
fn prune_if_truthy_contract() {
    let t = any_token();
    let shape: u8 = kani::any();
    kani::assume(shape < 3);
    let q = ManuallyDrop::new(Quote { expr: if shape == 1 { atom(t) } else { ExprKind::List(List { args: [kani::any(), kani::any()] }) } });
    let e = ManuallyDrop::new(if shape == 0 { atom(t) } else { ExprKind::Quote(Bx::of(&q)) });
    if expr_is_truthy(&e) {
        match shape {
            // a bare atom: must be a self-evaluating non-#f literal (an identifier's value is unknown to this pass)
            0 => assert!(reference_value_truthy(&t, None, false) == Some(true), "pruned to the then-branch although the test is not known to be true"),
            // a quoted atom: the datum itself
            1 => assert!(reference_datum_truthy(&t), "'#f is false"),
            // a quoted list is a true value
            _ => {}
        }
    }
    kani::cover!(shape == 1 && expr_is_truthy(&e));
}
