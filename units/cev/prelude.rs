// Unit `cev` prelude (TRUSTED, hand written): the types the verbatim text of
// steel_vm/const_evaluation.rs (ConstantEvaluator::{is_constant, is_truthy_constant, visit_if})
// mentions. `TokenType`, `Paren`, `ParenMod`, `InternedNumber` (steel-parser/src/tokens.rs),
// `OptLevel` (compiler.rs), `SteelVal::is_truthy` (rvals.rs), `If::new` (ast.rs) and the
// `ConstantEvaluator` struct itself are extracted verbatim, not restated here.
//  * ConstantEnv: ghost - one symbolic binding per lookup, `unbind` recorded
//  * `ConstantEvaluator::visit` is the callee contract of the recursive folder: returns the
//    expression it is given (folding of sub-expressions is a separate obligation) and records it
#![allow(dead_code, unused_variables, unused_imports)]
pub use std::cell::RefCell;
pub use std::rc::{Rc, Weak};

#[derive(Clone, Copy, PartialEq, Eq, Debug)]
pub struct InternedString(pub u32);
#[derive(Clone, Copy, PartialEq, Eq, Debug, Default)]
pub struct Span {
    pub start: u32,
    pub end: u32,
}
#[derive(Clone, Copy, PartialEq, Eq, Debug)]
pub struct SyntaxObjectId(pub u32);
#[derive(Clone, Copy, PartialEq, Debug)]
pub struct RawSyntaxObject<T> {
    pub ty: T,
    pub span: Span,
    pub syntax_object_id: SyntaxObjectId,
}
pub use crate::x_tokens::TokenType;
pub type SyntaxObject = RawSyntaxObject<TokenType<InternedString>>;

pub struct Atom {
    pub syn: SyntaxObject,
}
pub struct Quote {
    pub expr: ExprKind,
}
pub struct If {
    pub test_expr: ExprKind,
    pub then_expr: ExprKind,
    pub else_expr: ExprKind,
    pub location: SyntaxObject,
}
pub struct List {
    pub args: [Option<u32>; 2],
}
pub enum ExprKind {
    Atom(Atom),
    If(Box<If>),
    Quote(Bx<Quote>),
    List(List),
}

/// Box<T> stand-in pointing at a typed (stack) object (see units/anl/prelude.rs)
pub struct Bx<T>(pub *const T);
impl<T> Bx<T> {
    pub fn of(r: &T) -> Self {
        Bx(r as *const T)
    }
}
impl<T> core::ops::Deref for Bx<T> {
    type Target = T;
    fn deref(&self) -> &T {
        unsafe { &*self.0 }
    }
}

#[derive(Clone, Copy, PartialEq, Debug)]
pub enum SteelVal {
    BoolV(bool),
    IntV(isize),
    Void,
    Other(u8),
}

pub struct SteelErr;
pub type Result<T> = core::result::Result<T, SteelErr>;
pub struct MemoizationTable;
pub struct Kernel;

pub struct FxHashSet<T> {
    pub e: [Option<T>; 2],
}
impl<T: PartialEq> FxHashSet<T> {
    pub fn get(&self, k: &T) -> Option<&T> {
        if let Some(x) = &self.e[0] {
            if x == k {
                return Some(x);
            }
        }
        if let Some(x) = &self.e[1] {
            if x == k {
                return Some(x);
            }
        }
        None
    }
}

pub type SharedEnv = Rc<RefCell<ConstantEnv>>;
pub struct ConstantEnv {
    /// ghost: the constant the (single) identifier of the harness is bound to, if any
    pub bound: Option<SteelVal>,
    pub lookups: u32,
    pub unbinds: u32,
    /// ghost: ids of the atoms handed to the recursive folder, in order
    pub visited: [u32; 4],
    pub nvisited: usize,
}
impl ConstantEnv {
    pub fn get(&mut self, ident: &InternedString) -> Option<SteelVal> {
        self.lookups += 1;
        self.bound
    }
    pub fn unbind(&mut self, ident: &InternedString) -> Option<()> {
        self.unbinds += 1;
        self.bound = None;
        Some(())
    }
}
