"""Unit `cev` (C01, engine E2): the constant folder's decision about `if` tests
(steel_vm/const_evaluation.rs)."""
import os
import shutil

from vlib.common import REPO, VERIF, read, write, sha256, scan_assumptions
from vlib.extract import Extractor
from vlib import kani

NAME = "cev"
CE = "crates/steel-core/src/steel_vm/const_evaluation.rs"
TOK = "crates/steel-parser/src/tokens.rs"
AST = "crates/steel-parser/src/ast.rs"


def build(scratch):
    ex = Extractor()
    tok = ("#[derive(Copy, Clone, Debug, PartialEq)]\n" + ex.item(TOK, "enum", "Paren") + "\n\n#[derive(Copy, Clone, Debug, PartialEq)]\n" + ex.item(TOK, "enum", "ParenMod")
           + "\n\n#[derive(Copy, Clone, Debug, PartialEq)]\n" + ex.item(TOK, "struct", "InternedNumber")
           + "\n\n#[derive(Clone, Copy, Debug, PartialEq)]\n" + ex.item(TOK, "enum", "TokenType") + "\n")
    parts = ["#[derive(Clone, Copy, PartialEq, PartialOrd)]\n" + ex.item("crates/steel-core/src/compiler/compiler.rs", "enum", "OptLevel")]
    parts.append(ex.item(CE, "struct", "ConstantEvaluator"))
    s, ob, end = ex.impl_range(CE, r"impl<'a> ConstantEvaluator<'a>")
    preds = [ex.fn(CE, n, within=(ob, end)) for n in ["is_truthy_constant", "is_constant"]]
    s2, ob2, end2 = ex.impl_range(CE, r"impl<'a> ConsumingVisitor for ConstantEvaluator<'a>")
    vif = ex.fn(CE, "visit_if", within=(ob2, end2))
    for it in ex.items[-3:]:
        it["edits"] = ["D1", "D3"]
    parts.append("impl<'a> ConstantEvaluator<'a> {\n    type_output_placeholder!();\n    " + "\n\n    ".join(preds + [vif.replace("-> Self::Output", "-> Result<ExprKind>")]) + "\n}")
    ex.items[-1]["edits"].append("`Self::Output` spelled out as `Result<ExprKind>` (the associated type of the trait impl)")
    parts.append("impl SteelVal {\n    " + ex.fn("crates/steel-core/src/rvals.rs", "is_truthy") + "\n}")
    OPT = "crates/steel-core/src/compiler/passes/opt.rs"
    parts.append(ex.fn(OPT, "expr_is_truthy"))
    parts.append(ex.fn(OPT, "is_truthy"))
    s, ob, end = ex.impl_range(AST, r"impl If \{")
    parts.append("impl If {\n    " + ex.fn(AST, "new", within=(ob, end)) + "\n}")
    text = "\n\n".join(parts).replace("    type_output_placeholder!();\n", "") + "\n"
    crate = os.path.join(scratch, "cevx")
    os.makedirs(os.path.join(crate, "src"))
    shutil.copy(os.path.join(REPO, "Cargo.lock"), os.path.join(crate, "Cargo.lock"))
    write(os.path.join(crate, "Cargo.toml"), "[package]\nname = \"cevx\"\nversion = \"0.0.0\"\nedition = \"2021\"\n\n[dependencies]\n\n[workspace]\n\n[lints.rust]\nunexpected_cfgs = { level = \"allow\", check-cfg = ['cfg(kani)'] }\n")
    prelude = read(os.path.join(VERIF, "units/cev/prelude.rs"))
    harness = read(os.path.join(VERIF, "units/cev/harness.rs"))
    write(os.path.join(crate, "src/prelude.rs"), prelude)
    write(os.path.join(crate, "src/x_tokens.rs"), "#![allow(dead_code)]\nuse crate::prelude::InternedString;\n\n" + tok + "\nimpl InternedNumber {\n    pub fn ghost(n: u32) -> Self {\n        InternedNumber(n)\n    }\n}\n")
    write(os.path.join(crate, "src/x_cev.rs"), "#![allow(dead_code, unused_imports, unused_variables, unused_mut)]\nuse crate::prelude::*;\n\n" + text + "\n#[cfg(kani)]\n#[path = \"harness.rs\"]\nmod harness;\n")
    write(os.path.join(crate, "src/harness.rs"), harness)
    write(os.path.join(crate, "src/lib.rs"), "#![allow(dead_code, unused_imports)]\npub mod prelude;\npub mod x_tokens;\npub mod x_cev;\npub mod parser {\n    pub mod ast {\n        pub use crate::prelude::{Atom, ExprKind, If, List, Quote};\n    }\n}\n")
    meta = {"unit": NAME, "engine": "E2: verbatim item extraction into a mini crate + Kani", "items": ex.items,
            "prelude": "units/cev/prelude.rs", "prelude_sha256": sha256(prelude), "harness_sha256": sha256(harness),
            "extractor_edits": "D1 (derive lines restated); D3 (visit_if taken from the ConsumingVisitor impl into an inherent impl, `Self::Output` spelled out; `self.visit` is a ghost callee returning its argument)",
            "assumption_scan": scan_assumptions(harness, "units/cev/harness.rs") + scan_assumptions(prelude, "units/cev/prelude.rs")}
    return crate, meta


REF = ("reference semantics of a test expression: #f is the only false value; literals, keywords and quoted data evaluate to themselves; an identifier evaluates to its binding; "
       "any other bare token is not an expression (evaluating it is an error). ")
OBS = {
    "if_test_atom_folding_contract": dict(kind="proof", functions=["ConstantEvaluator::is_constant", "ConstantEvaluator::is_truthy_constant"],
        contract=REF + "For EVERY token kind and payload, every binding state and assignment status of the identifier: if is_constant(test) then the test has a value and is_truthy_constant(test) is that value's truthiness; an assigned (set!) identifier is never constant"),
    "if_test_quote_folding_contract": dict(kind="proof", functions=["ConstantEvaluator::is_constant", "ConstantEvaluator::is_truthy_constant"],
        contract=REF + "For a quoted datum (any atom token, or a list): if is_constant(test) then is_truthy_constant(test) is the datum's truthiness - only '#f is false; a quoted list or symbol is true"),
    "prune_if_truthy_contract": dict(kind="proof", functions=["opt.rs expr_is_truthy", "opt.rs is_truthy (PruneConstantIfBranches)"],
        contract=REF + "PruneConstantIfBranches replaces (if test then else) by `then` when expr_is_truthy(test): for EVERY atom token and every quoted datum, expr_is_truthy(test) implies the test has a value and that value is not #f"),
    "visit_if_folding_contract": dict(kind="bounded", bound="test/then/else are atoms; the test is a boolean, keyword, identifier (any binding), number, `define` or `...` token; OptLevel symbolic", functions=["ConstantEvaluator::visit_if"],
        contract="the folder either keeps the `if` with all three parts (in place, in order) or replaces it by exactly the branch the reference semantics selects; it never folds below OptLevel::Three"),
}


def run_for(scratch, tier, prop):
    return run_unit(scratch, tier)


def run_unit(scratch, tier):
    crate, meta = build(scratch)
    p = os.path.join(crate, "src/harness.rs")
    write(p, read(p) + "\n#[kani::proof]\n#[kani::unwind(4)]\nfn canary_must_fail() {\n    let mut mt = MemoizationTable;\n    let mut k = None;\n    let si = FxHashSet { e: [None, None] };\n    let ev = evaluator(None, &si, &[], OptLevel::Three, &mut mt, &mut k);\n    let e = atom(TokenType::BooleanLiteral(true));\n    assert!(!ev.is_constant(&e), \"canary: must be reported as failing\");\n}\n")
    specs = [dict(name=n, kind=o["kind"], contract=o["contract"], functions=o["functions"], bound=o.get("bound")) for n, o in OBS.items()]
    specs.append(dict(name="canary_must_fail", kind="canary", contract="assert that must fail"))
    obs, cmd, out = kani.run_harnesses(crate, specs, NAME, "cev", jobs=4, timeout=3000, harness_timeout="10m",
                                       extra_flags=["--no-assertion-reach-checks"])
    kani.attach_counterexamples(obs, crate, "cev", out)
    return obs, meta, cmd
