// Unit `anl` prelude (TRUSTED, hand written): the types the verbatim text of
// compiler/passes/analysis.rs mentions. Nothing in here is verified; the functions under contract
// are copied byte-for-byte from /repo into x_analysis.rs next to this file.
//
//  * AST: reduced `ExprKind` (the variants the extracted functions match on) with the real field
//    names; the accessor methods (`atom_syntax_object`, `lambda_function`, `atom_identifier`,
//    `name_id`, `is_empty`, `first`, `local_bindings`, `expression_arguments`) are extracted
//    verbatim from crates/steel-parser/src/ast.rs, not restated here.
//  * `AnalysisPass`: the real fields the extracted functions touch (list checked against the real
//    struct on every run) + a ghost event log.
//  * `AnalysisPass::visit` is the CALLEE CONTRACT of the recursive visitor: it records the state
//    it was called in and returns with `tail_call_eligible`, `escape_analysis`, `stack_offset`
//    and `defining_context_depth` unchanged and `defining_context` either unchanged or cleared
//    (visit_set / visit_lambda_function clear it). The extracted visit_* functions are proved to
//    re-establish exactly this contract themselves.
//  * quickscope::ScopeMap, FxHashMap, SmallVec, ThinVec: exact finite models (assumed contracts).
#![allow(dead_code, unused_variables, unused_imports)]

#[derive(Clone, Copy, PartialEq, Eq, Debug, PartialOrd, Ord)]
pub struct SyntaxObjectId(pub u32);

#[derive(Clone, Copy, PartialEq, Eq, Debug, Default)]
pub struct Span {
    pub start: u32,
    pub end: u32,
}

#[derive(Clone, Copy, PartialEq, Eq, Debug)]
pub struct InternedString(pub u32);

#[derive(Clone, Copy, PartialEq, Eq, Debug)]
pub enum TokenType<S> {
    Identifier(S),
    Other,
}

#[derive(Clone, Copy, PartialEq, Eq, Debug)]
pub struct RawSyntaxObject<T> {
    pub ty: T,
    pub span: Span,
    pub syntax_object_id: SyntaxObjectId,
}
pub type SyntaxObject = RawSyntaxObject<TokenType<InternedString>>;

pub struct Atom {
    pub syn: SyntaxObject,
}
pub struct If {
    pub test_expr: ExprKind,
    pub then_expr: ExprKind,
    pub else_expr: ExprKind,
}
pub struct Let {
    pub bindings: Vec<(ExprKind, ExprKind)>,
    pub body_expr: ExprKind,
    pub syntax_object_id: u32,
}
pub struct Define {
    pub name: ExprKind,
    pub body: ExprKind,
}
pub struct LambdaFunction {
    pub syntax_object_id: u32,
}
pub struct Begin {
    pub exprs: ArrVec<ExprKind>,
}
pub struct Quote;
pub struct Set {
    pub variable: ExprKind,
    pub expr: ExprKind,
}
pub struct List {
    pub args: ThinVec<ExprKind>,
    pub syntax_object_id: u32,
    pub improper: bool,
    pub location: Span,
}
pub enum ExprKind {
    Atom(Atom),
    If(Box<If>),
    Let(Box<Let>),
    Define(Bx<Define>),
    LambdaFunction(Box<LambdaFunction>),
    Begin(Box<Begin>),
    Quote(Box<Quote>),
    List(List),
    Set(Box<Set>),
}

// ---- Box<T> stand-in pointing at a typed (stack) object: `Box::new` of a struct that contains
// enum-with-Box fields is a byte array to CBMC
pub struct Bx<T>(pub *const T);
impl<T> Bx<T> {
    pub fn of(r: &T) -> Self {
        Bx(r as *const T)
    }
}
impl<T> core::ops::Deref for Bx<T> {
    type Target = T;
    fn deref(&self) -> &T {
        unsafe { &*self.0 }
    }
}

// ---- a Vec<T> of at most 4 elements kept in a typed array (heap-allocated element buffers of
// enum-with-Box elements are byte arrays to CBMC and blow the formula up)
pub struct ArrVec<T> {
    pub a: [Option<T>; 4],
    pub n: usize,
}
impl<T> ArrVec<T> {
    pub fn new() -> Self {
        ArrVec { a: [None, None, None, None], n: 0 }
    }
    pub fn push(&mut self, v: T) {
        self.a[self.n] = Some(v);
        self.n += 1;
    }
    pub fn len(&self) -> usize {
        self.n
    }
    pub fn is_empty(&self) -> bool {
        self.n == 0
    }
    pub fn iter(&self) -> ArrIter<'_, T> {
        ArrIter { v: self, i: 0 }
    }
}
impl<T> core::ops::Index<usize> for ArrVec<T> {
    type Output = T;
    fn index(&self, i: usize) -> &T {
        assert!(i < self.n);
        self.a[i].as_ref().unwrap()
    }
}
impl<T> core::ops::IndexMut<usize> for ArrVec<T> {
    fn index_mut(&mut self, i: usize) -> &mut T {
        assert!(i < self.n);
        self.a[i].as_mut().unwrap()
    }
}
pub struct ArrIter<'a, T> {
    v: &'a ArrVec<T>,
    i: usize,
}
impl<'a, T> Iterator for ArrIter<'a, T> {
    type Item = &'a T;
    fn next(&mut self) -> Option<&'a T> {
        if self.i < self.v.n {
            self.i += 1;
            self.v.a[self.i - 1].as_ref()
        } else {
            None
        }
    }
}
impl<'a, T> IntoIterator for &'a ArrVec<T> {
    type Item = &'a T;
    type IntoIter = ArrIter<'a, T>;
    fn into_iter(self) -> Self::IntoIter {
        self.iter()
    }
}

// ---- ThinVec / SmallVec: a Vec with the same API -------------------------------------------
pub struct ThinVec<T>(pub Vec<T>);
impl<T> core::ops::Deref for ThinVec<T> {
    type Target = [T];
    fn deref(&self) -> &[T] {
        &self.0
    }
}
impl<'a, T> IntoIterator for &'a ThinVec<T> {
    type Item = &'a T;
    type IntoIter = core::slice::Iter<'a, T>;
    fn into_iter(self) -> Self::IntoIter {
        self.0.iter()
    }
}

pub trait Array {
    type Item;
}
impl<T, const N: usize> Array for [T; N] {
    type Item = T;
}
pub struct SmallVec<A: Array>(pub Vec<A::Item>);
impl<A: Array> SmallVec<A> {
    pub fn new() -> Self {
        SmallVec(Vec::with_capacity(8))
    }
    pub fn push(&mut self, v: A::Item) {
        self.0.push(v)
    }
}
impl<A: Array> core::ops::Deref for SmallVec<A> {
    type Target = [A::Item];
    fn deref(&self) -> &[A::Item] {
        &self.0
    }
}
impl<A: Array> core::ops::DerefMut for SmallVec<A> {
    fn deref_mut(&mut self) -> &mut [A::Item] {
        &mut self.0
    }
}
impl<A: Array> FromIterator<A::Item> for SmallVec<A> {
    fn from_iter<I: IntoIterator<Item = A::Item>>(it: I) -> Self {
        let mut v = Vec::with_capacity(8);
        for x in it {
            v.push(x);
        }
        SmallVec(v)
    }
}
impl<A: Array> IntoIterator for SmallVec<A> {
    type Item = A::Item;
    type IntoIter = std::vec::IntoIter<A::Item>;
    fn into_iter(self) -> Self::IntoIter {
        self.0.into_iter()
    }
}

// ---- FxHashMap: association list with the std API that the extracted text uses ----------------
#[derive(Default, Clone, Copy)]
pub struct FxBuildHasher;
pub struct FxHashMap<K, V> {
    pub e: Vec<(K, V)>,
}
impl<K: PartialEq, V> FxHashMap<K, V> {
    pub fn new() -> Self {
        FxHashMap { e: Vec::with_capacity(8) }
    }
    pub fn with_capacity_and_hasher(_n: usize, _h: FxBuildHasher) -> Self {
        Self::new()
    }
    pub fn get(&self, k: &K) -> Option<&V> {
        let mut i = 0;
        while i < self.e.len() {
            if self.e[i].0 == *k {
                return Some(&self.e[i].1);
            }
            i += 1;
        }
        None
    }
    pub fn get_mut(&mut self, k: &K) -> Option<&mut V> {
        let mut i = 0;
        while i < self.e.len() {
            if self.e[i].0 == *k {
                return Some(&mut self.e[i].1);
            }
            i += 1;
        }
        None
    }
    pub fn insert(&mut self, k: K, v: V) -> Option<V> {
        let mut i = 0;
        while i < self.e.len() {
            if self.e[i].0 == k {
                return Some(core::mem::replace(&mut self.e[i].1, v));
            }
            i += 1;
        }
        self.e.push((k, v));
        None
    }
    pub fn len(&self) -> usize {
        self.e.len()
    }
    pub fn entry(&mut self, k: K) -> hash_map::Entry<'_, K, V> {
        let mut i = 0;
        while i < self.e.len() {
            if self.e[i].0 == k {
                return hash_map::Entry::Occupied(hash_map::OccupiedEntry { m: self, i });
            }
            i += 1;
        }
        hash_map::Entry::Vacant(hash_map::VacantEntry { m: self, k })
    }
}
pub mod hash_map {
    use super::FxHashMap;
    pub enum Entry<'a, K, V> {
        Occupied(OccupiedEntry<'a, K, V>),
        Vacant(VacantEntry<'a, K, V>),
    }
    pub struct OccupiedEntry<'a, K, V> {
        pub m: &'a mut FxHashMap<K, V>,
        pub i: usize,
    }
    pub struct VacantEntry<'a, K, V> {
        pub m: &'a mut FxHashMap<K, V>,
        pub k: K,
    }
    impl<'a, K, V> VacantEntry<'a, K, V> {
        pub fn insert(self, v: V) {
            self.m.e.push((self.k, v));
        }
    }
}

// ---- quickscope::ScopeMap: layered map, exact model --------------------------------------------
// (entries are never moved: a removed entry becomes `None` - Vec::remove's memmove is what CBMC
// cannot digest)
pub struct ScopeMap<K, V, S = FxBuildHasher> {
    pub e: Vec<(K, Option<V>, usize)>,
    pub layers: usize,
    _s: core::marker::PhantomData<S>,
}
impl<K: PartialEq + Copy, V, S> ScopeMap<K, V, S> {
    pub fn with_layers(layers: usize) -> Self {
        ScopeMap { e: Vec::with_capacity(8), layers, _s: core::marker::PhantomData }
    }
    pub fn depth(&self) -> usize {
        self.layers
    }
    pub fn push_layer(&mut self) {
        self.layers += 1;
    }
    pub fn pop_layer(&mut self) -> bool {
        if self.layers > 1 {
            let top = self.layers - 1;
            let mut i = 0;
            while i < self.e.len() {
                if self.e[i].2 == top {
                    self.e[i].1 = None;
                }
                i += 1;
            }
            self.layers -= 1;
            return true;
        }
        false
    }
    fn top_index(&self, k: &K) -> Option<usize> {
        // the live entry of `k` on the highest layer
        let mut best: Option<usize> = None;
        let mut i = 0;
        while i < self.e.len() {
            if self.e[i].0 == *k && self.e[i].1.is_some() {
                match best {
                    Some(b) if self.e[b].2 >= self.e[i].2 => {}
                    _ => best = Some(i),
                }
            }
            i += 1;
        }
        best
    }
    pub fn get(&self, k: &K) -> Option<&V> {
        match self.top_index(k) {
            Some(i) => self.e[i].1.as_ref(),
            None => None,
        }
    }
    pub fn get_mut(&mut self, k: &K) -> Option<&mut V> {
        match self.top_index(k) {
            Some(i) => self.e[i].1.as_mut(),
            None => None,
        }
    }
    pub fn define(&mut self, k: K, v: V) {
        let top = self.layers - 1;
        let mut i = 0;
        while i < self.e.len() {
            if self.e[i].0 == k && self.e[i].2 == top && self.e[i].1.is_some() {
                self.e[i].1 = Some(v);
                return;
            }
            i += 1;
        }
        self.e.push((k, Some(v), top));
    }
    pub fn remove(&mut self, k: &K) -> Option<V> {
        let top = self.layers - 1;
        let mut i = 0;
        while i < self.e.len() {
            if self.e[i].0 == *k && self.e[i].2 == top && self.e[i].1.is_some() {
                return self.e[i].1.take();
            }
            i += 1;
        }
        None
    }
    pub fn iter(&self) -> ScopeIter<'_, K, V, S> {
        ScopeIter { m: self, i: 0 }
    }
}
pub struct ScopeIter<'a, K, V, S> {
    m: &'a ScopeMap<K, V, S>,
    i: usize,
}
impl<'a, K: PartialEq + Copy, V, S> Iterator for ScopeIter<'a, K, V, S> {
    type Item = (&'a K, &'a V);
    fn next(&mut self) -> Option<Self::Item> {
        while self.i < self.m.e.len() {
            let i = self.i;
            self.i += 1;
            if self.m.top_index(&self.m.e[i].0) == Some(i) {
                if let Some(v) = self.m.e[i].1.as_ref() {
                    return Some((&self.m.e[i].0, v));
                }
            }
        }
        None
    }
}

// ---- analysis state -----------------------------------------------------------------------------
pub struct Analysis {
    pub(crate) info: FxHashMap<SyntaxObjectId, SemanticInformation>,
    pub(crate) function_info: FxHashMap<u32, FunctionInformation>,
    pub(crate) call_info: FxHashMap<u32, CallSiteInformation>,
    pub(crate) let_info: FxHashMap<u32, LetInformation>,
    pub(crate) scope: ScopeMap<InternedString, ScopeInfo, FxBuildHasher>,
}
use crate::x_analysis::{CallSiteInformation, FunctionInformation, IdentifierStatus, LetInformation, ScopeInfo, SemanticInformation};

impl Analysis {
    pub fn with_depth(layers: usize) -> Self {
        Analysis { info: FxHashMap::new(), function_info: FxHashMap::new(), call_info: FxHashMap::new(), let_info: FxHashMap::new(), scope: ScopeMap::with_layers(layers) }
    }
}

/// what the ghost callee saw when it was called
#[derive(Clone, Copy, PartialEq, Eq, Debug)]
pub enum Ev {
    Visit { expr: usize, tail: bool, escape: bool, ctx: Option<SyntaxObjectId>, ctx_depth: usize, stack_offset: usize, scope_depth: usize, probe0: Option<u16>, probe1: Option<u16> },
    DefineWithoutBody { define: usize, status: IdentifierStatus },
}

pub struct AnalysisPass<'a> {
    pub info: &'a mut Analysis,
    pub tail_call_eligible: bool,
    pub escape_analysis: bool,
    pub defining_context: Option<SyntaxObjectId>,
    pub defining_context_depth: usize,
    pub stack_offset: usize,
    pub function_context: Option<u32>,
    pub contains_lambda_func: bool,
    pub vars_used: SmallVec<[InternedString; 24]>,
    pub captures: ScopeMap<InternedString, ScopeInfo, FxBuildHasher>,
    // ghost
    pub log: Vec<Ev>,
    /// ghost: which of the next callee invocations clear the defining context (bit i = i-th call)
    pub clears: u8,
    /// ghost: two names whose stack slot (as the scope sees it) is recorded at every callee invocation
    pub probe: [InternedString; 2],
}

pub const REAL_FIELDS: &[&str] = &[
    "info: &'a mut Analysis,",
    "tail_call_eligible: bool,",
    "escape_analysis: bool,",
    "defining_context: Option<SyntaxObjectId>,",
    "defining_context_depth: usize,",
    "stack_offset: usize,",
    "function_context: Option<u32>,",
    "contains_lambda_func: bool,",
    "vars_used: smallvec::SmallVec<[InternedString; 24]>,",
    "captures: ScopeMap<InternedString, ScopeInfo, FxBuildHasher>,",
];

impl<'a> AnalysisPass<'a> {
    pub fn ghost_new(info: &'a mut Analysis) -> Self {
        AnalysisPass { info, tail_call_eligible: false, escape_analysis: false, defining_context: None, defining_context_depth: 0, stack_offset: 0,
                       function_context: None, contains_lambda_func: false, vars_used: SmallVec::new(), captures: ScopeMap::with_layers(1), log: Vec::with_capacity(16), clears: 0, probe: [InternedString(u32::MAX), InternedString(u32::MAX)] }
    }
    /// CALLEE CONTRACT of the recursive visitor (see the header of this file)
    pub fn visit(&mut self, expr: &'a ExprKind) {
        let n = self.log.len();
        self.log.push(Ev::Visit { expr: expr as *const ExprKind as usize, tail: self.tail_call_eligible, escape: self.escape_analysis, ctx: self.defining_context,
                                  ctx_depth: self.defining_context_depth, stack_offset: self.stack_offset, scope_depth: self.info.scope.depth(),
                                  probe0: self.info.scope.get(&self.probe[0]).and_then(|x| x.stack_offset), probe1: self.info.scope.get(&self.probe[1]).and_then(|x| x.stack_offset) });
        if n < 8 && (self.clears >> n) & 1 == 1 {
            self.defining_context = None;
        }
    }
    /// abstracted callee (registers the defined name; does not touch the traversal state)
    pub fn visit_define_without_body(&mut self, define: &Define, status: IdentifierStatus) {
        self.log.push(Ev::DefineWithoutBody { define: define as *const Define as usize, status });
    }
}

/// the set of names the prelude exports (ghost: every name with an id >= 1_000_000 is one)
pub struct PreludeNames;
pub struct PreludeNameSet;
impl PreludeNameSet {
    pub fn contains(&self, k: &InternedString) -> bool {
        k.0 >= 1_000_000
    }
}
impl PreludeNames {
    pub fn with<R>(&self, f: impl FnOnce(&PreludeNameSet) -> R) -> R {
        f(&PreludeNameSet)
    }
}
pub static PRELUDE_INTERNED_STRINGS: PreludeNames = PreludeNames;
