"""Unit `anl` (C09 / C01, engine E2): tail-position and frame bookkeeping of the compiler's
semantic analysis (compiler/passes/analysis.rs, `AnalysisPass::visit_*`)."""
import os
import re
import shutil

from vlib.common import REPO, VERIF, AnchorLost, read, write, sha256, scan_assumptions
from vlib.extract import Extractor
from vlib import kani

NAME = "anl"
AN = "crates/steel-core/src/compiler/passes/analysis.rs"
AST = "crates/steel-parser/src/ast.rs"


def build(scratch):
    ex = Extractor()
    prelude = read(os.path.join(VERIF, "units/anl/prelude.rs"))
    # the restated AnalysisPass field list must still be the real one (minus `captures`, unused here)
    st = ex.item(AN, "struct", "AnalysisPass")
    ex.items.pop()
    for f in re.search(r"pub const REAL_FIELDS: &\[&str\] = &\[(.*?)\];", prelude, re.S).group(1).split("\n"):
        f = f.strip().strip(",").strip('"')
        if f and f not in st:
            raise AnchorLost(f"AnalysisPass field changed: {f}")
    parts = []
    parts.append("#[derive(Clone, Copy, Debug, PartialEq, Eq)]\n" + ex.item(AN, "enum", "IdentifierStatus"))
    parts.append("#[derive(Debug, Clone)]\n" + ex.item(AN, "struct", "SemanticInformation"))
    s, ob, end = ex.impl_range(AN, r"impl SemanticInformation")
    parts.append(ex.impl_block(AN, r"impl SemanticInformation"))
    parts.append("#[derive(Debug, Clone, PartialEq, Eq)]\n" + ex.item(AN, "struct", "ScopeInfo"))
    parts.append(ex.impl_block(AN, r"impl ScopeInfo"))
    parts.append("#[derive(Debug, PartialEq, Clone)]\n" + ex.item(AN, "enum", "CallKind"))
    parts.append("#[derive(Debug, Clone)]\n" + ex.item(AN, "struct", "CallSiteInformation"))
    parts.append(ex.impl_block(AN, r"impl CallSiteInformation"))
    parts.append(ex.item(AN, "struct", "LetInformation"))
    parts.append(ex.impl_block(AN, r"impl LetInformation"))
    parts.append(ex.item(AN, "struct", "FunctionInformation"))
    parts.append(ex.impl_block(AN, r"impl FunctionInformation"))
    s, ob, end = ex.impl_range(AN, r"impl Analysis \{")
    parts.append("impl Analysis {\n    " + "\n\n    ".join(ex.fn(AN, n, within=(ob, end)) for n in ["insert", "get", "get_mut"]) + "\n}")
    # the visitor methods: one from the inherent impl, the others from the trait impl (D3: re-wrapped
    # in an inherent impl; the trait's `visit` dispatcher is the ghost callee of the prelude)
    inh = [m for m in re.finditer(r"^impl<'a> AnalysisPass<'a> \{", ex.src(AN), re.M)]
    if not inh:
        raise AnchorLost("impl<'a> AnalysisPass<'a> not found")
    wt = ex.fn(AN, "visit_with_tail_call_eligibility")
    s, ob, end = ex.impl_range(AN, r"impl<'a> VisitorMutUnitRef<'a> for AnalysisPass<'a>")
    meths = [wt] + [ex.fn(AN, n, within=(ob, end)) for n in ["visit_define", "visit_if", "visit_list", "visit_begin", "visit_let", "visit_set", "visit_atom"]]
    for it in ex.items[-8:]:
        it["edits"] = ["D1", "D3"]
    parts.append("impl<'a> AnalysisPass<'a> {\n    " + "\n\n    ".join(meths) + "\n}")
    an_text = "\n\n".join(parts) + "\n"
    # AST accessors, verbatim from steel-parser
    acc = ("impl ExprKind {\n    " + "\n\n    ".join(ex.fn(AST, n) for n in ["atom_syntax_object", "lambda_function", "atom_identifier"]) + "\n}\n\n"
           "impl Define {\n    " + ex.fn(AST, "name_id") + "\n}\n\n")
    s, ob, end = ex.impl_range(AST, r"impl List \{")
    acc += "impl List {\n    " + ex.fn(AST, "is_empty", within=(ob, end)) + "\n}\n\n"
    s, ob, end = ex.impl_range(AST, r"impl Let \{")
    acc += "impl Let {\n    " + "\n\n    ".join(ex.fn(AST, n, within=(ob, end)) for n in ["local_bindings", "expression_arguments"]) + "\n}\n\n"
    acc += ex.impl_block(AST, r"impl Deref for List") + "\n"
    s, ob, end = ex.impl_range(AST, r"impl Atom \{")
    acc += "impl Atom {\n    " + ex.fn(AST, "ident", within=(ob, end)) + "\n}\n\n"
    crate = os.path.join(scratch, "anlx")
    os.makedirs(os.path.join(crate, "src"))
    shutil.copy(os.path.join(REPO, "Cargo.lock"), os.path.join(crate, "Cargo.lock"))
    write(os.path.join(crate, "Cargo.toml"), "[package]\nname = \"anlx\"\nversion = \"0.0.0\"\nedition = \"2021\"\n\n[dependencies]\n\n[workspace]\n\n[lints.rust]\nunexpected_cfgs = { level = \"allow\", check-cfg = ['cfg(kani)'] }\n")
    harness = read(os.path.join(VERIF, "units/anl/harness.rs"))
    write(os.path.join(crate, "src/prelude.rs"), prelude)
    write(os.path.join(crate, "src/x_ast.rs"), "#![allow(dead_code, unused_imports, unused_variables, unused_mut)]\nuse crate::prelude::*;\nuse core::ops::Deref;\n\n" + acc)
    write(os.path.join(crate, "src/x_analysis.rs"), "#![allow(dead_code, unused_imports, unused_variables, unused_mut, unused_assignments)]\nuse crate::prelude::*;\nuse crate::prelude::hash_map;\n\n" + an_text
          + "\n#[cfg(kani)]\n#[path = \"harness.rs\"]\nmod harness;\n")
    write(os.path.join(crate, "src/harness.rs"), harness)
    write(os.path.join(crate, "src/lib.rs"), "#![allow(dead_code, unused_imports)]\npub mod prelude;\npub mod x_ast;\npub mod x_analysis;\npub mod parser {\n    pub mod ast {\n        pub use crate::prelude::{Atom, Begin, Define, ExprKind, If, LambdaFunction, Let, List, Quote, Set};\n    }\n}\npub mod steel_vm {\n    pub mod primitives {\n        pub use crate::prelude::PRELUDE_INTERNED_STRINGS;\n    }\n}\n")
    meta = {"unit": NAME, "engine": "E2: verbatim item extraction into a mini crate + Kani", "items": ex.items,
            "prelude": "units/anl/prelude.rs", "prelude_sha256": sha256(prelude), "harness_sha256": sha256(harness),
            "extractor_edits": "D1 (derive lines restated); D3 (trait-impl methods re-wrapped in an inherent impl; `self.visit` is the prelude's ghost callee carrying the visitor's contract; `visit_define_without_body` is an abstracted callee)",
            "assumption_scan": scan_assumptions(harness, "units/anl/harness.rs") + scan_assumptions(prelude, "units/anl/prelude.rs")}
    return crate, meta


B = "concrete expression shapes (<= 3 sub-expressions / bindings), every entry state symbolic (tail flag, escape flag, defining context, depths, offsets)"
TAIL = ("tail position follows R7RS 3.5: ")
OBS = {
    "with_tail_call_eligibility_contract": dict(kind="proof", functions=["AnalysisPass::visit_with_tail_call_eligibility"],
        contract="the sub-expression is analysed with exactly the given tail flag and the caller's flag is back afterwards"),
    "visit_if_contract": dict(kind="proof", functions=["AnalysisPass::visit_if"],
        contract=TAIL + "the test is never in tail position, both branches are in tail position iff the `if` is; the traversal state is restored"),
    "visit_begin_contract": dict(kind="bounded", bound=B, functions=["AnalysisPass::visit_begin"],
        contract=TAIL + "only the last expression of a body is in tail position, and only if the body is; internal defines are analysed with their own name as defining context (depth 0) and the enclosing context is restored; the traversal state (tail flag, defining context, depth, stack offset) is restored on exit, also for an empty body"),
    "visit_begin_defines_contract": dict(kind="bounded", bound="(begin (define f (lambda ..)) e (define g e'))", functions=["AnalysisPass::visit_begin"],
        contract="internal definitions in a body: function definitions are registered before the body is analysed (mutual recursion), each is analysed with its own name as defining context at depth 0, the enclosing context is back for the next expression and on exit"),
    "visit_define_contract": dict(kind="proof", functions=["AnalysisPass::visit_define"],
        contract="the defined value is never in tail position; a lambda is analysed with the defined name as defining context; tail flag and defining context are restored"),
    "visit_list_operands_contract": dict(kind="bounded", bound=B, functions=["AnalysisPass::visit_list"],
        contract="operands and operator of a call are never in tail position; operand i is analysed with stack offset entry+i; tail flag, escape flag and stack offset are restored; an empty application records nothing"),
    "visit_list_empty_application_contract": dict(kind="proof", functions=["AnalysisPass::visit_list"],
        contract="analysing the empty application () records no call and leaves offsets, escape flag and defining context alone (the tail flag is not constrained: a tree containing () is rejected before any code is generated)"),
    "visit_list_call_kind_contract": dict(kind="bounded", bound=B, functions=["AnalysisPass::visit_list"],
        contract="the recorded call kind: TailCall only if the call is in tail position inside a function (scope depth > 1), SelfTailCall(d) only if additionally the operator refers to the function being defined and d is the current nesting depth, otherwise Normal - a call that is not in tail position is NEVER marked as a tail call"),
    "visit_let_contract": dict(kind="bounded", bound=B, functions=["AnalysisPass::visit_let"],
        contract=TAIL + "binding expressions are never in tail position and are analysed outside the defining context, binding i at stack offset entry+i; the body is in tail position iff the let is, inside the restored defining context; variable i is bound to stack slot entry+i while the body is analysed; tail flag and stack offset are restored and the bindings are out of scope afterwards"),
    "visit_atom_local_contract": dict(kind="bounded", bound="one local binding (symbolic slot, usage count, captured / mutated flags), scope depth 2-3, symbolic traversal state", functions=["AnalysisPass::visit_atom", "Analysis::insert", "SemanticInformation::*", "Atom::ident"],
        contract="a read of a variable bound in the CURRENT function: the occurrence is recorded as Local (HeapAllocated iff the binding is captured and mutated) referring to that binding and its stack slot; the binding's use count goes up by one and THIS occurrence becomes its last use; the traversal state is untouched"),
    "visit_atom_captured_contract": dict(kind="bounded", bound="one binding in an enclosing function + its capture record (from the stack or from the enclosing closure, mutated or not, symbolic offsets)", functions=["AnalysisPass::visit_atom"],
        contract="a read of a variable captured from an enclosing function: recorded as Captured (HeapAllocated iff mutated) referring to the captured binding with its capture offsets; the capture record AND the binding that is in scope are both marked captured with THIS occurrence as last use - whether the value comes from the stack or from the enclosing closure's captures (otherwise an earlier read is compiled as a move and the closure captures #<void>)"),
    "visit_atom_global_free_contract": dict(kind="bounded", bound="one global binding / no binding; builtin name or not", functions=["AnalysisPass::visit_atom"],
        contract="a read of a global is recorded as Global referring to the global's id (use counts of the binding and of its definition go up); an unbound name is recorded as Free, or as a builtin Global if the prelude exports it; a non-identifier atom records nothing; the traversal state is untouched"),
    "visit_set_contract": dict(kind="bounded", bound="one assignment, symbolic entry state", functions=["AnalysisPass::visit_set"],
        contract="the assigned expression is never in tail position; the traversal state is restored (the defining context may only be cleared)"),
}
PROPS = {
    "C09": list(OBS),
    "C01": list(OBS),
    "C03": [n for n in OBS if n.startswith("visit_atom")],
}


def run_for(scratch, tier, prop):
    return run_unit(scratch, tier, prop)


def run_unit(scratch, tier, prop=None):
    crate, meta = build(scratch)
    p = os.path.join(crate, "src/harness.rs")
    write(p, read(p) + "\n#[kani::proof]\n#[kani::unwind(6)]\nfn canary_must_fail() {\n    let e = atom(1, 1);\n    let mut a = Analysis::with_depth(2);\n    let mut p = AnalysisPass::ghost_new(&mut a);\n    p.tail_call_eligible = true;\n    p.visit_with_tail_call_eligibility(&e, false);\n    assert!(!p.tail_call_eligible, \"canary: must be reported as failing\");\n}\n")
    # C03 (last-use soundness) is served by the variable-read obligations only
    specs = [dict(name=n, kind=o["kind"], contract=o["contract"], functions=o["functions"], bound=o.get("bound")) for n, o in OBS.items()
             if prop != "C03" or n.startswith("visit_atom")]
    specs.append(dict(name="canary_must_fail", kind="canary", contract="assert that must fail"))
    obs, cmd, out = kani.run_harnesses(crate, specs, NAME, "anl", jobs=8, timeout=3000, harness_timeout="10m",
                                       extra_flags=["--no-assertion-reach-checks"])
    kani.attach_counterexamples(obs, crate, "anl", out)
    return obs, meta, cmd
