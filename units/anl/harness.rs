// Contract harnesses for the analysis pass (unit `anl`). Child module of x_analysis.rs.
use super::*;
use crate::prelude::*;
use core::mem::ManuallyDrop;

fn so(id: u32, name: u32) -> SyntaxObject {
    RawSyntaxObject { ty: TokenType::Identifier(InternedString(name)), span: Span { start: id, end: id + 1 }, syntax_object_id: SyntaxObjectId(id) }
}
pub fn atom(id: u32, name: u32) -> ExprKind {
    ExprKind::Atom(Atom { syn: so(id, name) })
}
fn lam(id: u32) -> ExprKind {
    ExprKind::LambdaFunction(Box::new(LambdaFunction { syntax_object_id: id }))
}
fn addr(e: &ExprKind) -> usize {
    e as *const ExprKind as usize
}

#[derive(Clone, Copy)]
struct Entry {
    tail: bool,
    escape: bool,
    ctx: Option<SyntaxObjectId>,
    ctx_depth: usize,
    so: usize,
    fctx: Option<u32>,
}

/// every entry state of the traversal
fn sym_state(p: &mut AnalysisPass) -> Entry {
    let tail: bool = kani::any();
    let escape: bool = kani::any();
    let ctx: Option<SyntaxObjectId> = if kani::any() { Some(SyntaxObjectId(kani::any())) } else { None };
    let ctx_depth: usize = kani::any();
    let so: usize = kani::any();
    kani::assume(ctx_depth < 1000);
    kani::assume(so < 1000);
    p.tail_call_eligible = tail;
    p.escape_analysis = escape;
    p.defining_context = ctx;
    p.defining_context_depth = ctx_depth;
    p.stack_offset = so;
    p.clears = kani::any();
    Entry { tail, escape, ctx, ctx_depth, so, fctx: None }
}

/// the visitor contract every visit_* must re-establish: flags, depth and offset as on entry;
/// the defining context unchanged, or cleared if a callee cleared it
fn restored(p: &AnalysisPass, s: &Entry) {
    assert!(p.tail_call_eligible == s.tail, "tail flag restored");
    assert!(p.escape_analysis == s.escape, "escape flag restored");
    assert!(p.defining_context_depth == s.ctx_depth, "defining-context depth restored");
    assert!(p.stack_offset == s.so, "stack offset restored");
    assert!(p.defining_context == s.ctx || p.defining_context.is_none(), "defining context unchanged or cleared");
    if p.clears == 0 {
        assert!(p.defining_context == s.ctx, "defining context unchanged when no callee cleared it");
    }
}

struct V {
    expr: usize,
    tail: bool,
    escape: bool,
    ctx: Option<SyntaxObjectId>,
    ctx_depth: usize,
    so: usize,
    scope_depth: usize,
    probe0: Option<u16>,
    probe1: Option<u16>,
}
fn visit_at(p: &AnalysisPass, i: usize) -> V {
    match p.log[i] {
        Ev::Visit { expr, tail, escape, ctx, ctx_depth, stack_offset, scope_depth, probe0, probe1 } => V { expr, tail, escape, ctx, ctx_depth, so: stack_offset, scope_depth, probe0, probe1 },
        _ => {
            assert!(false, "expected a visit event");
            unreachable!()
        }
    }
}
fn ctx_ok(v: &V, s: &Entry) -> bool {
    v.ctx == s.ctx || v.ctx.is_none()
}

#[kani::proof]
#[kani::unwind(6)]
fn with_tail_call_eligibility_contract() {
    let e = ManuallyDrop::new(atom(1, 1));
    let mut a = Analysis::with_depth(2);
    let mut p = AnalysisPass::ghost_new(&mut a);
    let s = sym_state(&mut p);
    let flag: bool = kani::any();
    p.visit_with_tail_call_eligibility(&e, flag);
    assert!(p.log.len() == 1);
    let v = visit_at(&p, 0);
    assert!(v.expr == addr(&e) && v.tail == flag, "analysed with the given flag");
    assert!(v.escape == s.escape && v.ctx == s.ctx && v.ctx_depth == s.ctx_depth && v.so == s.so);
    restored(&p, &s);
}

#[kani::proof]
#[kani::unwind(6)]
fn visit_if_contract() {
    let f = ManuallyDrop::new(If { test_expr: atom(1, 1), then_expr: atom(2, 2), else_expr: atom(3, 3) });
    let mut a = Analysis::with_depth(2);
    let mut p = AnalysisPass::ghost_new(&mut a);
    let s = sym_state(&mut p);
    p.visit_if(&f);
    assert!(p.log.len() == 3);
    let (t, th, el) = (visit_at(&p, 0), visit_at(&p, 1), visit_at(&p, 2));
    assert!(t.expr == addr(&f.test_expr) && !t.tail, "the test is not in tail position");
    assert!(th.expr == addr(&f.then_expr) && th.tail == s.tail, "then-branch inherits the tail position");
    assert!(el.expr == addr(&f.else_expr) && el.tail == s.tail, "else-branch inherits the tail position");
    assert!(ctx_ok(&t, &s) && ctx_ok(&th, &s) && ctx_ok(&el, &s));
    assert!(th.so == s.so && el.so == s.so && th.ctx_depth == s.ctx_depth && el.ctx_depth == s.ctx_depth);
    restored(&p, &s);
}

#[kani::proof]
#[kani::unwind(6)]
fn visit_begin_contract() {
    // (begin), (begin e0), (begin e0 e1 e2)
    begin_case(0);
    begin_case(1);
    begin_case(3);
}

fn begin_case(n: usize) {
    let mut exprs = ArrVec::new();
    let mut i = 0;
    while i < n {
        exprs.push(atom(i as u32 + 1, i as u32 + 1));
        i += 1;
    }
    let b = ManuallyDrop::new(Begin { exprs });
    let mut a = Analysis::with_depth(2);
    let mut p = AnalysisPass::ghost_new(&mut a);
    let s = sym_state(&mut p);
    p.visit_begin(&b);
    assert!(p.log.len() == n, "every expression analysed exactly once");
    let mut i = 0;
    while i < n {
        let v = visit_at(&p, i);
        assert!(v.expr == addr(&b.exprs[i]), "in order");
        if i + 1 == n {
            assert!(v.tail == s.tail, "the last expression inherits the tail position");
        } else {
            assert!(!v.tail, "a non-last expression is not in tail position");
        }
        assert!(ctx_ok(&v, &s) && v.ctx_depth == s.ctx_depth && v.so == s.so && v.escape == s.escape);
        i += 1;
    }
    restored(&p, &s);
}

#[kani::proof]
#[kani::unwind(6)]
fn visit_begin_defines_contract() {
    // (begin (define f (lambda ..)) e (define g e'))
    let def0 = ManuallyDrop::new(Define { name: atom(10, 10), body: lam(11) });
    let def2 = ManuallyDrop::new(Define { name: atom(30, 30), body: atom(31, 31) });
    let d0 = ExprKind::Define(Bx::of(&def0));
    let e1 = atom(20, 20);
    let d2 = ExprKind::Define(Bx::of(&def2));
    let mut exprs = ArrVec::new();
    exprs.push(d0);
    exprs.push(e1);
    exprs.push(d2);
    let b = ManuallyDrop::new(Begin { exprs });
    let mut a = Analysis::with_depth(2);
    let mut p = AnalysisPass::ghost_new(&mut a);
    let s = sym_state(&mut p);
    p.visit_begin(&b);
    let (df0, df2) = match (&b.exprs[0], &b.exprs[2]) {
        (ExprKind::Define(x), ExprKind::Define(y)) => (x, y),
        _ => unreachable!(),
    };
    assert!(p.log.len() == 4);
    // the function definition is registered before anything is analysed
    assert!(p.log[0] == Ev::DefineWithoutBody { define: &**df0 as *const Define as usize, status: IdentifierStatus::LocallyDefinedFunction });
    let v0 = visit_at(&p, 1);
    assert!(v0.expr == addr(&df0.body) && !v0.tail, "body of an internal function definition: own context");
    assert!(v0.ctx == Some(SyntaxObjectId(10)) && v0.ctx_depth == 0);
    let v1 = visit_at(&p, 2);
    assert!(v1.expr == addr(&b.exprs[1]) && !v1.tail);
    assert!(v1.ctx == s.ctx && v1.ctx_depth == s.ctx_depth, "the enclosing context is back after the definition");
    let v2 = visit_at(&p, 3);
    assert!(v2.expr == addr(&b.exprs[2]) && v2.tail == s.tail);
    assert!(v2.ctx == Some(SyntaxObjectId(30)) && v2.ctx_depth == 0);
    assert!(v0.so == s.so && v1.so == s.so && v2.so == s.so);
    // the last element is a definition, whose context is restored from the value saved just before
    // it (log position 2 is the visit of the middle expression, the only one that can clear it)
    assert!(p.defining_context == s.ctx || ((p.clears >> 2) & 1 == 1 && p.defining_context.is_none()));
    restored(&p, &s);
}

#[kani::proof]
#[kani::unwind(6)]
fn visit_define_contract() {
    let is_lambda: bool = kani::any();
    let d = ManuallyDrop::new(Define { name: atom(10, 10), body: if is_lambda { lam(11) } else { atom(12, 12) } });
    let mut a = Analysis::with_depth(2);
    let mut p = AnalysisPass::ghost_new(&mut a);
    let s = sym_state(&mut p);
    p.visit_define(&d);
    assert!(p.log.len() == 2);
    let reg = Ev::DefineWithoutBody { define: &*d as *const Define as usize, status: IdentifierStatus::Local };
    if is_lambda {
        // the name is in scope while the function body is analysed (recursion)
        assert!(p.log[0] == reg);
        let v = visit_at(&p, 1);
        assert!(v.expr == addr(&d.body) && !v.tail);
        assert!(v.ctx == Some(SyntaxObjectId(10)), "analysed as the definition of that name");
        assert!(p.defining_context == s.ctx, "enclosing context restored");
    } else {
        let v = visit_at(&p, 0);
        assert!(v.expr == addr(&d.body) && !v.tail, "the defined value is not in tail position");
        assert!(v.ctx == s.ctx);
        assert!(p.log[1] == reg, "the name is defined after its value was analysed");
    }
    restored(&p, &s);
}

fn app(id: u32, args: Vec<ExprKind>) -> List {
    List { args: ThinVec(args), syntax_object_id: id, improper: false, location: Span { start: 7, end: 9 } }
}

#[kani::proof]
#[kani::unwind(6)]
fn visit_list_operands_contract() {
    // (f), (f a b)
    list_case(1);
    list_case(3);
}

#[kani::proof]
#[kani::unwind(6)]
fn visit_list_empty_application_contract() {
    // ()
    list_case(0);
}

fn list_case(n: usize) {
    let mut args = Vec::with_capacity(4);
    let mut i = 0;
    while i < n {
        args.push(atom(i as u32 + 1, i as u32 + 1));
        i += 1;
    }
    let l = ManuallyDrop::new(app(99, args));
    let mut a = ManuallyDrop::new(Analysis::with_depth(2));
    let mut p = AnalysisPass::ghost_new(&mut a);
    let s = sym_state(&mut p);
    p.visit_list(&l);
    assert!(p.log.len() == n, "operator and operands analysed exactly once");
    let mut i = 1;
    while i < n {
        let v = visit_at(&p, i - 1);
        assert!(v.expr == addr(&l.args[i]), "operands in order");
        assert!(!v.tail, "an operand is not in tail position");
        assert!(v.escape, "an operand may escape");
        assert!(v.so == s.so + (i - 1), "operand i sits above the previous ones");
        assert!(ctx_ok(&v, &s) && v.ctx_depth == s.ctx_depth);
        i += 1;
    }
    if n > 0 {
        let v = visit_at(&p, n - 1);
        assert!(v.expr == addr(&l.args[0]) && !v.tail, "the operator is not in tail position");
        assert!(v.so == s.so + (n - 1));
    }
    if n == 0 {
        // `()` is rejected by the constant folder and by code generation ("empty function
        // application"), so no code compiled from a tree containing it ever runs: the tail flag this
        // early return leaves cleared is not observable and is deliberately NOT part of the contract
        assert!(p.info.call_info.len() == 0, "() is not a call");
        assert!(p.escape_analysis == s.escape && p.stack_offset == s.so && p.defining_context == s.ctx && p.defining_context_depth == s.ctx_depth);
    } else {
        restored(&p, &s);
    }
}

#[kani::proof]
#[kani::unwind(6)]
fn visit_list_call_kind_contract() {
    // (f a) where f may or may not be known, may or may not refer to the function being defined
    let operator_is_atom: bool = kani::any();
    let mut args = Vec::with_capacity(4);
    args.push(if operator_is_atom { atom(1, 1) } else { lam(2) });
    args.push(atom(3, 3));
    let l = ManuallyDrop::new(app(99, args));
    let depth: usize = kani::any();
    kani::assume(depth >= 1 && depth <= 3);
    let mut a = ManuallyDrop::new(Analysis::with_depth(depth));
    let known: bool = kani::any();
    let refers: Option<SyntaxObjectId> = if kani::any() { Some(SyntaxObjectId(kani::any())) } else { None };
    if known {
        let mut si = SemanticInformation::new(IdentifierStatus::Local, 1, Span { start: 0, end: 0 });
        si.refers_to = refers;
        a.info.insert(SyntaxObjectId(1), si);
    }
    let mut p = AnalysisPass::ghost_new(&mut a);
    let s = sym_state(&mut p);
    p.visit_list(&l);
    restored(&p, &s);
    let ctx_now = p.defining_context;
    let rec = p.info.call_info.get(&99);
    let in_tail_position = s.tail && depth > 1;
    if operator_is_atom && !known {
        assert!(rec.is_none(), "unresolved operator: nothing recorded");
    } else {
        let rec = rec.unwrap();
        if !in_tail_position {
            assert!(rec.kind == CallKind::Normal, "a call outside tail position is a normal call");
        } else if operator_is_atom && ctx_now.is_some() && refers == ctx_now {
            assert!(rec.kind == CallKind::SelfTailCall(s.ctx_depth), "tail call of the function being defined");
        } else {
            assert!(rec.kind == CallKind::TailCall, "tail call");
        }
        if operator_is_atom {
            assert!(rec.span == Span { start: 1, end: 2 });
        } else {
            assert!(rec.span == Span { start: 7, end: 9 });
        }
    }
    assert!(p.info.call_info.len() <= 1);
    kani::cover!(in_tail_position && operator_is_atom && known && refers.is_some() && refers == ctx_now);
    kani::cover!(!in_tail_position && s.tail);
}

#[kani::proof]
#[kani::unwind(6)]
fn visit_let_contract() {
    // (let ((x e0) (y e1)) body)
    let mut bindings = Vec::with_capacity(4);
    bindings.push((atom(1, 101), atom(2, 2)));
    bindings.push((atom(3, 103), atom(4, 4)));
    let l = ManuallyDrop::new(Let { bindings, body_expr: atom(5, 5), syntax_object_id: 77 });
    let depth: usize = kani::any();
    kani::assume(depth >= 1 && depth <= 3);
    let mut a = ManuallyDrop::new(Analysis::with_depth(depth));
    let mut p = AnalysisPass::ghost_new(&mut a);
    let s = sym_state(&mut p);
    p.probe = [InternedString(101), InternedString(103)];
    p.visit_let(&l);
    assert!(p.log.len() == 3);
    let (b0, b1, body) = (visit_at(&p, 0), visit_at(&p, 1), visit_at(&p, 2));
    assert!(b0.expr == addr(&l.bindings[0].1) && b1.expr == addr(&l.bindings[1].1) && body.expr == addr(&l.body_expr));
    assert!(!b0.tail && !b1.tail, "binding expressions are not in tail position");
    assert!(b0.ctx.is_none() && b1.ctx.is_none(), "binding expressions are outside the defining context");
    assert!(b0.so == s.so && b1.so == s.so + 1, "binding i is evaluated above the previous ones");
    assert!(b0.probe0.is_none() && b1.probe0.is_none() && b1.probe1.is_none(), "let is not let*: the variables are not in scope in the binding expressions");
    assert!(body.tail == s.tail, "the body inherits the tail position");
    assert!(body.ctx == s.ctx, "the body is inside the defining context again");
    assert!(body.ctx_depth == s.ctx_depth);
    assert!(body.probe0 == Some(s.so as u16) && body.probe1 == Some(s.so as u16 + 1), "variable i lives in stack slot entry+i");
    assert!(body.scope_depth == if depth == 1 { 2 } else { depth });
    // exit
    assert!(p.tail_call_eligible == s.tail && p.stack_offset == s.so && p.escape_analysis == s.escape && p.defining_context_depth == s.ctx_depth);
    assert!(p.defining_context == s.ctx || ((p.clears >> 2) & 1 == 1 && p.defining_context.is_none()));
    assert!(p.info.scope.depth() == depth);
    assert!(p.info.scope.get(&InternedString(101)).is_none() && p.info.scope.get(&InternedString(103)).is_none(), "the variables are out of scope after the let");
    let li = p.info.let_info.get(&77).unwrap();
    assert!(li.stack_offset == s.so && li.arguments.len() == 2);
    assert!(li.arguments.get(&InternedString(101)).unwrap().stack_offset == Some(s.so as u16));
    assert!(li.arguments.get(&InternedString(103)).unwrap().stack_offset == Some(s.so as u16 + 1));
}

#[kani::proof]
#[kani::unwind(6)]
fn visit_set_contract() {
    let st = ManuallyDrop::new(Set { variable: atom(1, 101), expr: atom(2, 2) });
    let mut a = ManuallyDrop::new(Analysis::with_depth(2));
    let known: bool = kani::any();
    let refers: Option<SyntaxObjectId> = if kani::any() { Some(SyntaxObjectId(kani::any())) } else { None };
    if known {
        let mut si = SemanticInformation::new(IdentifierStatus::Local, 1, Span { start: 0, end: 0 });
        si.refers_to = refers;
        a.info.insert(SyntaxObjectId(1), si);
    }
    let mut p = AnalysisPass::ghost_new(&mut a);
    let s = sym_state(&mut p);
    p.visit_set(&st);
    assert!(p.log.len() == 2);
    let v = visit_at(&p, 0);
    assert!(v.expr == addr(&st.expr) && !v.tail, "the assigned expression is not in tail position");
    if known && s.ctx.is_some() && refers == s.ctx {
        assert!(v.ctx.is_none(), "assigning the function being defined ends its self-call treatment");
    }
    assert!(p.tail_call_eligible == s.tail && p.stack_offset == s.so && p.escape_analysis == s.escape && p.defining_context_depth == s.ctx_depth);
    assert!(p.defining_context == s.ctx || p.defining_context.is_none());
}

// ------------------------------------------------------------------ visit_atom: what a variable read refers to, and last use
fn the_atom(e: &ExprKind) -> &Atom {
    match e {
        ExprKind::Atom(a) => a,
        _ => panic!("not an atom"),
    }
}

fn sym_u16() -> u16 {
    let v: u16 = kani::any();
    kani::assume(v < 1000);
    v
}

#[kani::proof]
#[kani::unwind(6)]
fn visit_atom_local_contract() {
    const X: u32 = 7;
    let e = atom(50, X);
    let depth: usize = kani::any();
    kani::assume(depth >= 2 && depth <= 3);
    let mut a = Analysis::with_depth(depth);
    let slot = sym_u16();
    let uses: usize = kani::any();
    kani::assume(uses < 100);
    let (captured, mutated): (bool, bool) = (kani::any(), kani::any());
    let (ho, rho) = (sym_u16(), sym_u16());
    let mut b = ScopeInfo::new_local(SyntaxObjectId(10), slot as usize, depth as u16);
    b.usage_count = uses;
    b.captured = captured;
    b.mutated = mutated;
    b.heap_offset = Some(ho);
    b.read_heap_offset = Some(rho);
    b.last_used = Some(SyntaxObjectId(33));
    a.scope.define(InternedString(X), b);
    let mut p = AnalysisPass::ghost_new(&mut a);
    let s = sym_state(&mut p);
    p.visit_atom(the_atom(&e));
    restored(&p, &s);
    assert!(p.defining_context == s.ctx && p.log.len() == 0);
    assert!(p.vars_used.len() == 1 && p.vars_used[0] == InternedString(X));
    let b = p.info.scope.get(&InternedString(X)).unwrap();
    assert!(b.usage_count == uses + 1);
    assert!(b.last_used == Some(SyntaxObjectId(50)), "a read must become the variable's last use");
    assert!(b.stack_offset == Some(slot) && b.captured == captured && b.mutated == mutated);
    let i = p.info.info.get(&SyntaxObjectId(50)).unwrap();
    assert!(i.refers_to == Some(SyntaxObjectId(10)), "the read refers to another binding");
    assert!(i.stack_offset == Some(slot as u32), "the read is compiled against another stack slot");
    assert!(i.depth == depth as u32 && i.usage_count == 1);
    if captured && mutated {
        assert!(i.kind == IdentifierStatus::HeapAllocated && i.heap_offset == Some(ho as u32) && i.read_heap_offset == Some(rho as u32));
    } else {
        assert!(i.kind == IdentifierStatus::Local);
    }
}

#[kani::proof]
#[kani::unwind(6)]
fn visit_atom_captured_contract() {
    const X: u32 = 7;
    let e = atom(50, X);
    // the binding lives in an enclosing function (depth 2), the read happens two functions further in (depth 4)
    let mut a = Analysis::with_depth(2);
    let slot = sym_u16();
    let mut b = ScopeInfo::new_local(SyntaxObjectId(10), slot as usize, 2);
    b.last_used = Some(SyntaxObjectId(33));
    a.scope.define(InternedString(X), b);
    a.scope.push_layer();
    a.scope.push_layer();
    let mut p = AnalysisPass::ghost_new(&mut a);
    // the capture record of the current lambda
    let from_enclosing: bool = kani::any();
    let mutated: bool = kani::any();
    let uses: usize = kani::any();
    kani::assume(uses < 100);
    let (co, rco) = (sym_u16(), sym_u16());
    let mut c = ScopeInfo::new(SyntaxObjectId(10));
    c.captured_from_enclosing = from_enclosing;
    c.mutated = mutated;
    c.usage_count = uses;
    c.capture_offset = Some(co);
    c.read_capture_offset = Some(rco);
    c.last_used = Some(SyntaxObjectId(34));
    p.captures.define(InternedString(X), c);
    let s = sym_state(&mut p);
    p.visit_atom(the_atom(&e));
    restored(&p, &s);
    assert!(p.defining_context == s.ctx && p.log.len() == 0);
    let c = p.captures.get(&InternedString(X)).unwrap();
    assert!(c.captured && c.usage_count == uses + 1);
    assert!(c.last_used == Some(SyntaxObjectId(50)), "a read through a capture must become the capture's last use");
    let b = p.info.scope.get(&InternedString(X)).unwrap();
    assert!(b.captured, "the captured binding is not marked captured");
    assert!(b.last_used == Some(SyntaxObjectId(50)),
            "a read through a capture must also become the last use of the binding in scope - otherwise an earlier read is compiled as a move and the closure captures #<void>");
    let i = p.info.info.get(&SyntaxObjectId(50)).unwrap();
    assert!(i.refers_to == Some(SyntaxObjectId(10)) && i.usage_count == 1 && i.depth == 4);
    assert!(i.kind == if mutated { IdentifierStatus::HeapAllocated } else { IdentifierStatus::Captured });
    assert!(i.captured_from_enclosing == from_enclosing);
    assert!(i.read_capture_offset == Some(rco as u32) && i.capture_index == Some(co as u32));
}

#[kani::proof]
#[kani::unwind(6)]
fn visit_atom_global_free_contract() {
    // an ordinary name or one the prelude exports
    let name: u32 = if kani::any() { 5 } else { 1_000_005 };
    let e = atom(50, name);
    let which: u8 = kani::any();
    kani::assume(which < 3);
    let mut a = Analysis::with_depth(1);
    if which == 0 {
        let mut g = ScopeInfo::new_top_level(SyntaxObjectId(10));
        g.usage_count = 4;
        a.scope.define(InternedString(name), g);
        a.info.insert(SyntaxObjectId(10), SemanticInformation::new(IdentifierStatus::Global, 1, Span { start: 0, end: 1 }).with_usage_count(4));
    }
    a.scope.push_layer();
    let mut p = AnalysisPass::ghost_new(&mut a);
    let s = sym_state(&mut p);
    let lit = ExprKind::Atom(Atom { syn: RawSyntaxObject { ty: TokenType::Other, span: Span { start: 50, end: 51 }, syntax_object_id: SyntaxObjectId(50) } });
    if which == 2 {
        p.visit_atom(the_atom(&lit));
        assert!(p.info.info.get(&SyntaxObjectId(50)).is_none() && p.vars_used.len() == 0);
    } else {
        p.visit_atom(the_atom(&e));
        let i = p.info.info.get(&SyntaxObjectId(50)).unwrap();
        if which == 0 {
            assert!(i.kind == IdentifierStatus::Global && i.refers_to == Some(SyntaxObjectId(10)) && i.usage_count == 1);
            assert!(p.info.scope.get(&InternedString(name)).unwrap().usage_count == 5);
            assert!(p.info.info.get(&SyntaxObjectId(10)).unwrap().usage_count == 5);
            assert!(i.builtin == (name >= 1_000_000));
        } else {
            let builtin = name >= 1_000_000;
            assert!(i.kind == if builtin { IdentifierStatus::Global } else { IdentifierStatus::Free });
            assert!(i.builtin == builtin && i.refers_to.is_none());
        }
    }
    restored(&p, &s);
    assert!(p.defining_context == s.ctx && p.log.len() == 0);
}
