// Contract harnesses on the REAL crates/steel-parser (engine E1; child module of `lexer`).
// Inputs are strings of k symbolic characters drawn from a partition alphabet (ASCII delimiters
// the lexer branches on + one representative of each UTF-8 encoding length); no from_utf8.
#![allow(unused_imports, dead_code)]
use super::*;

fn any_char() -> char {
    let k: u8 = kani::any();
    match k % 8 {
        0 => '#',
        1 => '!',
        2 => '\n',
        3 => 'a',
        4 => '(',
        5 => '\u{e9}',    // 2 bytes
        6 => '\u{20ac}',  // 3 bytes
        _ => '\u{1d11e}', // 4 bytes
    }
}

fn remaining_bytes(mut it: Peekable<Chars<'_>>) -> usize {
    let mut n = 0;
    while let Some(c) = it.next() {
        n += c.len_utf8();
    }
    n
}

fn shebang_case(s: &str, want_chars: usize, want_bytes: usize) {
    let (chars, bytes) = strip_shebang_line(s);
    assert!(chars == want_chars, "first component is the number of characters of the #! line");
    assert!(bytes == want_bytes, "second component is the number of bytes of the #! line");
    let ts = TokenStream::new(s, true, None);
    let consumed = s.len() - remaining_bytes(ts.lexer.chars.clone());
    assert!(ts.lexer.token_end as usize == consumed, "byte offset and character iterator out of step after the #! line");
    assert!(ts.lexer.token_start == ts.lexer.token_end);
    assert!(ts.lexer.token_end as usize <= s.len() && s.is_char_boundary(ts.lexer.token_end as usize), "location outside the text");
}

/// strip_shebang_line / TokenStream::new on concrete texts (CBMC cannot search symbolic strings
/// in the time budget: measured > 10 min for 4 symbolic characters)
#[kani::proof]
#[kani::unwind(12)]
fn shebang_ascii_contract() {
    shebang_case("(a)", 0, 0);
    shebang_case("#!ab\n(", 4, 4);
}

#[kani::proof]
#[kani::unwind(12)]
fn shebang_non_ascii_contract() {
    shebang_case("#!\u{e9}\n(", 3, 4);
}

#[kani::proof]
#[kani::unwind(12)]
fn shebang_wide_contract() {
    shebang_case("#!\u{20ac}\u{1d11e}", 4, 9);
}

/// Lexer::eat advances token_end by exactly the encoded length of the consumed character
#[kani::proof]
#[kani::unwind(6)]
fn lexer_eat_contract() {
    let c1 = any_char();
    let c2 = any_char();
    let mut s = String::new();
    s.push(c1);
    s.push(c2);
    let mut lx = Lexer::new(&s);
    assert!(lx.token_start == 0 && lx.token_end == 0);
    assert!(lx.eat() == Some(c1));
    assert!(lx.token_end as usize == c1.len_utf8());
    assert!(lx.eat() == Some(c2));
    assert!(lx.token_end as usize == s.len());
    assert!(lx.eat().is_none() && lx.token_end as usize == s.len());
}

/// IdentBuffer: the characters pushed before the first escape are replayed exactly when the
/// escape forces buffering (|..| identifiers read back as written)
fn ident_case(c1: char, c2: char) {
    let mut s = String::new();
    s.push(c1);
    s.push(c2);
    s.push('\\');
    s.push('x');
    let mut buf = String::new();
    {
        let mut ib = IdentBuffer::new(s.chars().peekable(), &mut buf);
        ib.push(c1);
        ib.push(c2);
        ib.push_escape(Some('Z'));
        ib.push('q');
    }
    let mut want = String::new();
    want.push(c1);
    want.push(c2);
    want.push('Z');
    want.push('q');
    assert!(buf.len() == want.len(), "an identifier with an escape does not read back as written");
    let (a, b) = (buf.as_bytes(), want.as_bytes());
    let mut i = 0;
    while i < a.len() {
        assert!(a[i] == b[i], "an identifier with an escape does not read back as written");
        i += 1;
    }
}

#[kani::proof]
#[kani::unwind(14)]
fn ident_buffer_contract() {
    ident_case('a', 'b');
    ident_case('\u{e9}', 'b');
}

#[kani::proof]
#[kani::unwind(14)]
fn ident_buffer_wide_contract() {
    ident_case('\u{20ac}', '\u{1d11e}');
}
