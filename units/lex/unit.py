"""Unit `lex` (C12, engine E1): lexer position bookkeeping on the real crates/steel-parser."""
import os
import re
import shutil

from vlib.common import REPO, VERIF, read, write, sha256, scan_assumptions
from vlib.inject import find_header
from vlib import kani

NAME = "lex"
B = "texts of 2-4 characters from an 8-symbol partition alphabet (ASCII delimiters + one character of each UTF-8 length)"
OBS = {
    **{n: dict(kind="bounded", bound="concrete texts: no #! line, ASCII #! line, #! line with 2-, 3- and 4-byte characters", functions=["strip_shebang_line", "TokenStream::new", "Lexer::new"],
               contract="strip_shebang_line returns (characters, bytes) of the #! line; after TokenStream::new token_start == token_end == bytes consumed by the character iterator, on a char boundary inside the text")
       for n in ["shebang_ascii_contract", "shebang_non_ascii_contract", "shebang_wide_contract"]},
    "lexer_eat_contract": dict(kind="bounded", bound=B, functions=["Lexer::eat", "Lexer::new"], contract="token_end advances by the encoded length of each consumed character and stays <= len"),
    "ident_buffer_wide_contract": dict(kind="bounded", bound="concrete 3- and 4-byte characters before the escape", functions=["IdentBuffer::push", "IdentBuffer::push_escape"], contract="same with wide characters"),
    "ident_buffer_contract": dict(kind="bounded", bound="concrete ASCII / 2-byte characters before the escape", functions=["IdentBuffer::new", "IdentBuffer::push", "IdentBuffer::push_escape"],
                                  contract="characters pushed before the first escape are replayed exactly once buffering starts: the identifier reads back as written"),
}


def run_unit(scratch, tier):
    crate = os.path.join(scratch, "steel-parser")
    shutil.copytree(os.path.join(REPO, "crates/steel-parser"), crate, ignore=shutil.ignore_patterns("target"))
    shutil.copy(os.path.join(REPO, "Cargo.lock"), os.path.join(crate, "Cargo.lock"))
    ct = read(os.path.join(crate, "Cargo.toml"))
    ws = read(os.path.join(REPO, "Cargo.toml"))
    m = re.search(r"\[workspace\.package\]\s*version\s*=\s*\"([^\"]+)\"", ws)
    ct = ct.replace("version.workspace = true", f'version = "{m.group(1) if m else "0.0.0"}"') + "\n[workspace]\n"
    write(os.path.join(crate, "Cargo.toml"), ct)
    lx = read(os.path.join(crate, "src/lexer.rs"))
    real_sha = sha256(lx)
    for h in ["fn strip_shebang_line(input: &str) -> (usize, usize)", "fn eat(&mut self) -> Option<char>", "fn push_escape(&mut self, c: Option<char>)"]:
        find_header(lx, h)
    harness = read(os.path.join(VERIF, "units/lex/harness.rs"))
    harness += "\n#[kani::proof]\n#[kani::unwind(4)]\nfn canary_must_fail() {\n    let mut s = String::new();\n    s.push('a');\n    let mut lx = Lexer::new(&s);\n    lx.eat();\n    assert!(lx.token_end == 0, \"canary: must be reported as failing\");\n}\n"
    write(os.path.join(crate, "src/verif_lex_harness.rs"), harness)
    write(os.path.join(crate, "src/lexer.rs"), lx + "\n#[cfg(kani)]\n#[path = \"verif_lex_harness.rs\"]\nmod verif_lex;\n")
    specs = [dict(name=n, kind=o["kind"], contract=o["contract"], functions=o["functions"], bound=o.get("bound")) for n, o in OBS.items()]
    specs.append(dict(name="canary_must_fail", kind="canary", contract="assert that must fail"))
    obs, cmd, out = kani.run_harnesses(crate, specs, NAME, "lex", jobs=6, timeout=3000, harness_timeout="10m", extra_flags=["--no-assertion-reach-checks"])
    kani.attach_counterexamples(obs, crate, "lex", out)
    meta = {"unit": NAME, "engine": "E1: whole real crate steel-parser under Kani; harness module appended to lexer.rs", "source": "crates/steel-parser/src/lexer.rs",
            "source_sha256": real_sha, "functions_under_contract": sorted({f for o in OBS.values() for f in o["functions"]}),
            "extractor_edits": ["none: crate copied verbatim; a #[cfg(kani)] child module is appended to lexer.rs"],
            "harness_sha256": sha256(harness), "assumption_scan": scan_assumptions(harness, "units/lex/harness.rs")}
    return obs, meta, cmd
