"""Unit `cgen` (C01 / C09, engine E2): bytecode layout emitted by compiler/code_gen.rs for
if / begin / define / application / set! / let."""
import os
import re
import shutil

from vlib.common import REPO, VERIF, AnchorLost, read, write, sha256, scan_assumptions
from vlib.extract import Extractor
from vlib import kani

NAME = "cgen"
CG = "crates/steel-core/src/compiler/code_gen.rs"
AN = "crates/steel-core/src/compiler/passes/analysis.rs"
AST = "crates/steel-parser/src/ast.rs"
LAB = "crates/steel-core/src/core/labels.rs"
INSTR = "crates/steel-core/src/core/instructions.rs"


def build(scratch):
    ex = Extractor()
    src = ex.src(CG)
    for fn in ["specialize_immediate", "should_specialize_call"]:
        if not re.search(r"fn " + fn + r"\(&self, l: &List\) -> Option<OpCode> \{\s*if cfg!\(feature = \"jit2\"\) \{\s*return None;\s*\}", src):
            raise AnchorLost(f"{fn} no longer starts with the jit2 early return (the ghost returning None would be wrong)")
    ws = read(os.path.join(REPO, "Cargo.toml"))
    if not re.search(r"steel-core = \{[^}]*\"jit2\"", ws, re.S):
        raise AnchorLost("the workspace no longer builds steel-core with the jit2 feature")
    ins = ["#[derive(Copy, Clone, PartialEq, PartialOrd, Eq, Ord, Hash, Debug)]\n#[allow(non_camel_case_types)]\n#[repr(transparent)]\n" + ex.item(INSTR, "struct", "u24"),
           ex.impl_block(INSTR, r"impl u24")]
    lab = ["#[derive(Clone, Copy, Debug, PartialEq, Hash, Eq)]\n" + ex.item(LAB, "struct", "Label"),
           "#[derive(Clone, Debug, PartialEq)]\n" + ex.item(LAB, "enum", "Expr"),
           "#[derive(Clone, Debug)]\n" + ex.item(LAB, "struct", "LabeledInstruction"),
           ex.impl_block(LAB, r"impl LabeledInstruction")]
    an = ["#[derive(Clone, Copy, Debug, PartialEq)]\n" + ex.item(AN, "enum", "IdentifierStatus"),
          "#[derive(Debug, Clone)]\n" + ex.item(AN, "struct", "SemanticInformation")]
    s, ob, end = ex.impl_range(AN, r"impl SemanticInformation")
    an.append("impl SemanticInformation {\n    " + ex.fn(AN, "new", within=(ob, end)) + "\n}")
    an += ["#[derive(Debug, Clone, PartialEq, Eq)]\n" + ex.item(AN, "struct", "ScopeInfo"), ex.impl_block(AN, r"impl ScopeInfo"),
           "#[derive(Debug, PartialEq, Clone)]\n" + ex.item(AN, "enum", "CallKind"),
           "#[derive(Debug, Clone)]\n" + ex.item(AN, "struct", "CallSiteInformation"), ex.impl_block(AN, r"impl CallSiteInformation"),
           "#[derive(Debug, Clone)]\n" + ex.item(AN, "struct", "LetInformation"), ex.impl_block(AN, r"impl LetInformation")]
    s, ob, end = ex.impl_range(AN, r"impl Analysis \{")
    an.append("impl Analysis {\n    " + ex.fn(AN, "get", within=(ob, end)) + "\n}")
    cg = [ex.item(CG, "struct", "CodeGenerator")]
    s, ob, end = ex.impl_range(CG, r"impl<'a> CodeGenerator<'a>")
    inh = [ex.fn(CG, n, within=(ob, end)) for n in ["push", "len"]]
    s2, ob2, end2 = ex.impl_range(CG, r"impl<'a> VisitorMut for CodeGenerator<'a>")
    vis = [ex.fn(CG, n, within=(ob2, end2)).replace("-> Self::Output", "-> Result<()>") for n in ["visit_if", "visit_define", "visit_begin", "visit_list", "visit_set", "visit_let"]]
    for it in ex.items[-6:]:
        it["edits"] = ["D1", "D3", "`Self::Output` spelled out as `Result<()>` (the associated type of the trait impl)"]
    cg.append("impl<'a> CodeGenerator<'a> {\n    " + "\n\n    ".join(inh + vis) + "\n}")
    acc = ("impl ExprKind {\n    " + "\n\n    ".join(ex.fn(AST, n) for n in ["atom_syntax_object", "atom_identifier"]) + "\n}\n\n")
    s, ob, end = ex.impl_range(AST, r"impl Let \{")
    acc += "impl Let {\n    " + "\n\n    ".join(ex.fn(AST, n, within=(ob, end)) for n in ["expression_arguments"]) + "\n}\n"
    crate = os.path.join(scratch, "cgenx")
    os.makedirs(os.path.join(crate, "src"))
    shutil.copy(os.path.join(REPO, "Cargo.lock"), os.path.join(crate, "Cargo.lock"))
    write(os.path.join(crate, "Cargo.toml"), f"""[package]
name = "cgenx"
version = "0.0.0"
edition = "2021"

[features]
default = ["jit2"]
jit2 = []

[dependencies]
steel-gen = {{ path = "{REPO}/crates/steel-gen" }}

[workspace]

[lints.rust]
unexpected_cfgs = {{ level = "allow", check-cfg = ['cfg(kani)'] }}
""")
    prelude = read(os.path.join(VERIF, "units/cgen/prelude.rs"))
    harness = read(os.path.join(VERIF, "units/cgen/harness.rs"))
    allow = "#![allow(dead_code, unused_imports, unused_variables, unused_mut, non_camel_case_types)]\n"
    write(os.path.join(crate, "src/prelude.rs"), prelude)
    write(os.path.join(crate, "src/x_instructions.rs"), allow + "\n\n".join(ins) + "\n")
    write(os.path.join(crate, "src/x_labels.rs"), allow + "use crate::prelude::*;\nuse crate::x_instructions::u24;\n\n" + "\n\n".join(lab) + "\n")
    write(os.path.join(crate, "src/x_analysis.rs"), allow + "use crate::prelude::*;\n\n" + "\n\n".join(an) + "\n")
    write(os.path.join(crate, "src/x_ast.rs"), allow + "use crate::prelude::*;\n\n" + acc)
    write(os.path.join(crate, "src/compiler/code_gen.rs"), allow + "use crate::prelude::*;\nuse crate::prelude::AVec as Vec;\nuse crate::x_instructions::u24;\nuse crate::x_labels::LabeledInstruction;\n"
          "use crate::x_analysis::CallKind::{Normal, SelfTailCall, TailCall};\nuse crate::x_analysis::IdentifierStatus::{Captured, Free, Global, HeapAllocated, LetVar, Local, LocallyDefinedFunction};\n\n"
          + "\n\n".join(cg) + "\n\n#[cfg(kani)]\n#[path = \"harness.rs\"]\nmod harness;\n")
    write(os.path.join(crate, "src/compiler/harness.rs"), harness)
    write(os.path.join(crate, "src/lib.rs"), "#![allow(dead_code, unused_imports, static_mut_refs)]\n#[macro_use]\npub mod prelude;\npub mod x_instructions;\npub mod x_labels;\npub mod x_analysis;\npub mod x_ast;\n"
          "pub mod parser {\n    pub mod ast {\n        pub use crate::prelude::{Atom, Begin, Define, ExprKind, If, LambdaFunction, Let, List, Set};\n    }\n}\n"
          "pub mod compiler {\n    pub mod passes {\n        pub mod analysis {\n            pub use crate::x_analysis::*;\n        }\n    }\n    pub mod code_gen;\n}\n")
    meta = {"unit": NAME, "engine": "E2: verbatim item extraction into a mini crate + Kani", "items": ex.items,
            "prelude": "units/cgen/prelude.rs", "prelude_sha256": sha256(prelude), "harness_sha256": sha256(harness),
            "extractor_edits": "D1 (derive lines restated); D2 (feature jit2 on, as the workspace builds steel-core); D3 (VisitorMut methods re-wrapped in an inherent impl, `Self::Output` spelled out; `self.visit` and the specialize_* helpers are ghost callees of the prelude); `Vec` inside code_gen.rs resolves to the prelude typed fixed-capacity array model; `println!` (debug output in visit_let) expands to nothing",
            "assumption_scan": scan_assumptions(harness, "units/cgen/harness.rs") + scan_assumptions(prelude, "units/cgen/prelude.rs")}
    return crate, meta


B = "concrete layouts: sub-expression code of 1 or 2 instructions, 0 or 2 instructions emitted before the expression (3 variants)"
OBS = {
    "codegen_if_layout_contract": dict(kind="bounded", bound=B, functions=["CodeGenerator::visit_if"],
        contract="layout [test][IF f][then][JMP e][else] where f is the absolute index of the first else instruction and e the index after the last one - the VM's IF falls through when the test is true and jumps to f otherwise, JMP skips the else code; earlier code and the sub-expressions' code are untouched"),
    "codegen_begin_layout_contract": dict(kind="bounded", bound="bodies of 0, 1 and 3 expressions", functions=["CodeGenerator::visit_begin"],
        contract="every non-last expression's value is popped (POPSINGLE) right after its code, the last one's value stays; an empty body yields VOID"),
    "codegen_define_layout_contract": dict(kind="bounded", bound=B, functions=["CodeGenerator::visit_define"],
        contract="[SDEF name][value code][EDEF][BIND name][VOID]: the value is bound to exactly the defined name and the define form itself evaluates to void"),
    "codegen_call_opcode_contract": dict(kind="bounded", bound="calls with 0-2 operands, every recorded call kind", functions=["CodeGenerator::visit_list"],
        contract="operand code in order, then operator code, then the call instruction with payload = number of operands: FUNC for a normal or unanalysed call, TAILCALL only for a call recorded as TailCall, TCOJMP (operator push removed, followed by PASS depth-1) only for SelfTailCall; an empty application is an error"),
    "codegen_set_opcode_contract": dict(kind="bounded", bound="one layout (2 earlier instructions, 2-instruction value code); every identifier kind, builtin flag, slot and heap slot symbolic", functions=["CodeGenerator::visit_set"],
        contract="[value code][SET | SETLOCAL slot | SETALLOC heap-slot] chosen by the identifier's kind (global/free, local/let, heap allocated); assigning a module-required builtin, a captured or a locally defined function identifier is an error and emits no store"),
    "codegen_let_layout_contract": dict(kind="bounded", bound="let with 2 bindings, no heap-allocated variable", functions=["CodeGenerator::visit_let"],
        contract="[BEGINSCOPE][e0][LetVar][e1][LetVar][body][LETENDSCOPE entry-offset]: binding values are produced in order, each stays on the stack (its slot), and the scope is closed at the stack offset the analysis recorded for this let"),
}


def run_for(scratch, tier, prop):
    return run_unit(scratch, tier)


def run_unit(scratch, tier):
    crate, meta = build(scratch)
    p = os.path.join(crate, "src/compiler/harness.rs")
    write(p, read(p) + "\n#[kani::proof]\n#[kani::unwind(6)]\nfn canary_must_fail() {\n    let mut cm = ConstantMap;\n    let an = Analysis::ghost_new();\n    let mut g = gen(&mut cm, &an, 0);\n    let b = ManuallyDrop::new(Begin { exprs: std::vec::Vec::new() });\n    let _ = g.visit_begin(&b);\n    assert!(g.instructions.len() == 0, \"canary: must be reported as failing\");\n}\n")
    specs = [dict(name=n, kind=o["kind"], contract=o["contract"], functions=o["functions"], bound=o.get("bound")) for n, o in OBS.items()]
    specs.append(dict(name="canary_must_fail", kind="canary", contract="assert that must fail"))
    obs, cmd, out = kani.run_harnesses(crate, specs, NAME, "cgen", jobs=6, timeout=3000, harness_timeout="10m",
                                       extra_flags=["--no-assertion-reach-checks"])
    kani.attach_counterexamples(obs, crate, "cgen", out)
    return obs, meta, cmd
