// Unit `cgen` prelude (TRUSTED, hand written): the types the verbatim text of compiler/code_gen.rs
// (CodeGenerator::{push, len, visit_if, visit_begin, visit_define, visit_list, visit_set, visit_let})
// mentions. Extracted verbatim, not restated: u24 (core/instructions.rs), LabeledInstruction + Expr
// + Label (core/labels.rs), IdentifierStatus / SemanticInformation / CallKind / CallSiteInformation /
// LetInformation / ScopeInfo (compiler/passes/analysis.rs), the AST accessors (steel-parser ast.rs),
// the real OpCode enum (crate steel-gen, compiled as is).
//  * `CodeGenerator::visit` is the callee contract of the recursive generator: it appends the code of
//    the sub-expression (here: `width(expr)` marker instructions carrying the expression's id) and
//    touches nothing that is already emitted.
//  * specialize_immediate / should_specialize_call return None: the baseline build enables the
//    `jit2` feature, under which both start with `if cfg!(feature = "jit2") { return None; }`
//    (checked textually on every run).
#![allow(dead_code, unused_variables, unused_imports, unused_macros)]
pub use steel_gen::OpCode;

#[derive(Clone, Copy, PartialEq, Eq, Debug, PartialOrd, Ord)]
pub struct SyntaxObjectId(pub u32);
#[derive(Clone, Copy, PartialEq, Eq, Debug, Default)]
pub struct Span {
    pub start: u32,
    pub end: u32,
}
#[derive(Clone, Copy, PartialEq, Eq, Debug)]
pub struct InternedString(pub u32);
impl From<&str> for InternedString {
    fn from(_: &str) -> Self {
        InternedString(0xFFFF)
    }
}
#[derive(Clone, Copy, PartialEq, Eq, Debug)]
pub enum TokenType<S> {
    Identifier(S),
    Other,
}
#[derive(Clone, Copy, PartialEq, Eq, Debug)]
pub struct RawSyntaxObject<T> {
    pub ty: T,
    pub span: Span,
    pub syntax_object_id: SyntaxObjectId,
}
pub type SyntaxObject = RawSyntaxObject<TokenType<InternedString>>;
impl SyntaxObject {
    pub fn new(ty: TokenType<InternedString>, span: Span) -> Self {
        RawSyntaxObject { ty, span, syntax_object_id: SyntaxObjectId(0xFFFF) }
    }
}
impl core::fmt::Display for ExprKind {
    fn fmt(&self, f: &mut core::fmt::Formatter<'_>) -> core::fmt::Result {
        Ok(())
    }
}
impl core::fmt::Display for InternedString {
    fn fmt(&self, f: &mut core::fmt::Formatter<'_>) -> core::fmt::Result {
        Ok(())
    }
}
pub fn get_span(e: &ExprKind) -> Span {
    Span { start: 500, end: 501 }
}

#[derive(Clone, Debug, PartialEq)]
pub struct Atom {
    pub syn: SyntaxObject,
}
#[derive(Clone, Debug, PartialEq)]
pub struct If {
    pub test_expr: ExprKind,
    pub then_expr: ExprKind,
    pub else_expr: ExprKind,
}
#[derive(Clone, Debug, PartialEq)]
pub struct Let {
    pub bindings: Vec<(ExprKind, ExprKind)>,
    pub body_expr: ExprKind,
    pub syntax_object_id: u32,
}
#[derive(Clone, Debug, PartialEq)]
pub struct Define {
    pub name: ExprKind,
    pub body: ExprKind,
}
#[derive(Clone, Debug, PartialEq)]
pub struct LambdaFunction {
    pub syntax_object_id: u32,
}
#[derive(Clone, Debug, PartialEq)]
pub struct Begin {
    pub exprs: Vec<ExprKind>,
}
#[derive(Clone, Debug, PartialEq)]
pub struct Set {
    pub variable: ExprKind,
    pub expr: ExprKind,
    pub location: SyntaxObject,
}
#[derive(Clone, Debug, PartialEq)]
pub struct List {
    pub args: ThinVec<ExprKind>,
    pub syntax_object_id: u32,
    pub improper: bool,
    pub location: Span,
}
#[derive(Clone, Debug, PartialEq)]
pub enum ExprKind {
    Atom(Atom),
    LambdaFunction(Box<LambdaFunction>),
    List(List),
}

#[derive(Clone, Debug, PartialEq)]
/// (the buffer is never freed: recursive drop glue ExprKind -> List -> [ExprKind] does not terminate under CBMC)
pub struct ThinVec<T>(pub core::mem::ManuallyDrop<Vec<T>>);

/// std Vec<T> as seen by code_gen.rs: a typed fixed-capacity array (assumed contract of Vec; a heap
/// buffer of instructions - enums holding a Box - is a byte array to CBMC and does not finish)
pub struct AVec<T> {
    pub a: [Option<T>; 16],
    pub n: usize,
}
impl<T> AVec<T> {
    pub fn new() -> Self {
        AVec { a: [None, None, None, None, None, None, None, None, None, None, None, None, None, None, None, None], n: 0 }
    }
    pub fn push(&mut self, v: T) {
        // slot n is None: overwrite without running drop glue on it
        unsafe { core::ptr::write(&mut self.a[self.n], Some(v)) };
        self.n += 1;
    }
    pub fn pop(&mut self) -> Option<T> {
        if self.n == 0 {
            None
        } else {
            self.n -= 1;
            self.a[self.n].take()
        }
    }
    pub fn len(&self) -> usize {
        self.n
    }
    pub fn last(&self) -> Option<&T> {
        if self.n == 0 {
            None
        } else {
            self.a[self.n - 1].as_ref()
        }
    }
    pub fn get_mut(&mut self, i: usize) -> Option<&mut T> {
        if i < self.n {
            self.a[i].as_mut()
        } else {
            None
        }
    }
}
impl<T> core::ops::Index<usize> for AVec<T> {
    type Output = T;
    fn index(&self, i: usize) -> &T {
        assert!(i < self.n);
        self.a[i].as_ref().unwrap()
    }
}
impl<T> core::ops::Deref for ThinVec<T> {
    type Target = [T];
    fn deref(&self) -> &[T] {
        &self.0
    }
}
impl<T> ThinVec<T> {
    pub fn is_empty(&self) -> bool {
        self.0.is_empty()
    }
}

pub trait Array {
    type Item;
}
impl<T, const N: usize> Array for [T; N] {
    type Item = T;
}
pub struct SmallVec<A: Array>(pub Vec<A::Item>);
impl<A: Array> SmallVec<A> {
    /// insertion sort (std's sort machinery is recursive and drowns CBMC)
    pub fn sort_by_key<K: Ord, F: FnMut(&A::Item) -> K>(&mut self, mut f: F) {
        let n = self.0.len();
        let mut i = 1;
        while i < n {
            let mut j = i;
            while j > 0 && f(&self.0[j - 1]) > f(&self.0[j]) {
                self.0.swap(j - 1, j);
                j -= 1;
            }
            i += 1;
        }
    }
}
impl<A: Array> core::ops::Deref for SmallVec<A> {
    type Target = [A::Item];
    fn deref(&self) -> &[A::Item] {
        &self.0
    }
}
impl<A: Array> core::ops::DerefMut for SmallVec<A> {
    fn deref_mut(&mut self) -> &mut [A::Item] {
        &mut self.0
    }
}
impl<A: Array> FromIterator<A::Item> for SmallVec<A> {
    fn from_iter<I: IntoIterator<Item = A::Item>>(it: I) -> Self {
        let mut v = Vec::with_capacity(8);
        for x in it {
            v.push(x);
        }
        SmallVec(v)
    }
}
impl<A: Array> IntoIterator for SmallVec<A> {
    type Item = A::Item;
    type IntoIter = std::vec::IntoIter<A::Item>;
    fn into_iter(self) -> Self::IntoIter {
        self.0.into_iter()
    }
}

#[derive(Default, Clone, Copy)]
pub struct FxBuildHasher;
#[derive(Debug, Clone)]
pub struct FxHashMap<K, V> {
    pub e: Vec<(K, V)>,
}
impl<K: PartialEq, V> FxHashMap<K, V> {
    pub fn new() -> Self {
        FxHashMap { e: Vec::with_capacity(4) }
    }
    pub fn get(&self, k: &K) -> Option<&V> {
        let mut i = 0;
        while i < self.e.len() {
            if self.e[i].0 == *k {
                return Some(&self.e[i].1);
            }
            i += 1;
        }
        None
    }
    pub fn insert(&mut self, k: K, v: V) {
        self.e.push((k, v));
    }
    pub fn values(&self) -> impl Iterator<Item = &V> {
        self.e.iter().map(|x| &x.1)
    }
    pub fn iter(&self) -> impl Iterator<Item = (&K, &V)> {
        self.e.iter().map(|x| (&x.0, &x.1))
    }
}

pub struct SteelErr;
pub type Result<T> = core::result::Result<T, SteelErr>;
#[macro_export]
macro_rules! stop {
    ($($t:tt)*) => {
        return Err($crate::prelude::SteelErr)
    };
}
pub use crate::stop;
/// `println!` in the extracted text (debug output in visit_let) expands to nothing: the std
/// formatting machinery costs CBMC minutes and is not part of any contract
macro_rules! println {
    ($($t:tt)*) => {};
}

pub struct ConstantMap;
pub struct Instruction;

use crate::x_analysis::{CallSiteInformation, LetInformation, SemanticInformation};
pub struct Analysis {
    pub(crate) info: FxHashMap<SyntaxObjectId, SemanticInformation>,
    pub(crate) call_info: FxHashMap<u32, CallSiteInformation>,
    pub(crate) let_info: FxHashMap<u32, LetInformation>,
}
impl Analysis {
    pub fn ghost_new() -> Self {
        Analysis { info: FxHashMap::new(), call_info: FxHashMap::new(), let_info: FxHashMap::new() }
    }
}

/// ghost: how many instructions the code of a sub-expression has (by syntax object id)
pub static mut WIDTH: [usize; 8] = [1; 8];
pub fn expr_id(e: &ExprKind) -> u32 {
    match e {
        ExprKind::Atom(a) => a.syn.syntax_object_id.0,
        ExprKind::LambdaFunction(l) => l.syntax_object_id,
        ExprKind::List(l) => l.syntax_object_id,
    }
}

// ---- callee contracts of the recursive generator -----------------------------------------------
use crate::compiler::code_gen::CodeGenerator;
use crate::x_labels::LabeledInstruction;
impl<'a> CodeGenerator<'a> {
    /// code of a sub-expression: `WIDTH[id]` marker instructions (PASS, payload = id), appended
    pub fn visit(&mut self, expr: &ExprKind) -> Result<()> {
        let id = expr_id(expr);
        let w = unsafe { WIDTH[(id as usize) & 7] };
        let mut i = 0;
        while i < w {
            self.instructions.push(LabeledInstruction::builder(OpCode::PASS).payload(id as usize));
            i += 1;
        }
        Ok(())
    }
    pub fn specialize_immediate(&self, l: &List) -> Option<OpCode> {
        None
    }
    pub fn should_specialize_call(&self, l: &List) -> Option<OpCode> {
        None
    }
    pub fn specialize_immediate_call(&mut self, l: &List, op: OpCode) -> Option<()> {
        None
    }
    pub fn specialize_call(&mut self, l: &List, op: OpCode) -> Option<()> {
        None
    }
}
