// Contract harnesses for the bytecode generator (unit `cgen`). Child module of x_codegen.rs.
use super::*;
use crate::prelude::*;
use crate::x_analysis::*;
use crate::x_labels::*;
use core::mem::ManuallyDrop;
use std::vec::Vec as SVec;

fn so(id: u32, name: u32) -> SyntaxObject {
    RawSyntaxObject { ty: TokenType::Identifier(InternedString(name)), span: Span { start: id, end: id + 1 }, syntax_object_id: SyntaxObjectId(id) }
}
fn atom(id: u32) -> ExprKind {
    ExprKind::Atom(Atom { syn: so(id, 100 + id) })
}

/// a generator that has already emitted `pre` instructions (VOID markers)
pub fn gen<'a>(cm: &'a mut ConstantMap, an: &'a Analysis, pre: usize) -> CodeGenerator<'a> {
    let mut instructions = Vec::new();
    let mut i = 0;
    while i < pre {
        instructions.push(LabeledInstruction::builder(OpCode::VOID).payload(77));
        i += 1;
    }
    CodeGenerator { instructions, constant_map: cm, analysis: an, local_count: Vec::new() }
}

/// concrete code sizes of the sub-expressions (all instruction indices stay concrete: symbolic
/// indices into the instruction array are what CBMC cannot digest)
fn set_widths(ids: &[u32], variant: usize) {
    let mut k = 0;
    for id in ids {
        let w = if variant == 0 { 1 } else { 1 + ((k + variant) % 2) };
        unsafe { WIDTH[(*id as usize) & 7] = w };
        k += 1;
    }
}
fn width(id: u32) -> usize {
    unsafe { WIDTH[(id as usize) & 7] }
}
fn is(g: &CodeGenerator, i: usize, op: OpCode, payload: usize) -> bool {
    i < g.instructions.len() && g.instructions[i].op_code == op && g.instructions[i].payload_size.to_usize() == payload
}
/// the code of sub-expression `id` sits at [at, at+width) untouched; returns the index after it
fn code_of(g: &CodeGenerator, at: usize, id: u32) -> usize {
    let w = width(id);
    let mut i = 0;
    while i < w {
        assert!(is(g, at + i, OpCode::PASS, id as usize), "sub-expression code in place and untouched");
        i += 1;
    }
    at + w
}
fn prefix_untouched(g: &CodeGenerator, pre: usize) {
    let mut i = 0;
    while i < pre {
        assert!(is(g, i, OpCode::VOID, 77), "code emitted earlier is untouched");
        i += 1;
    }
}
fn pre_len(variant: usize) -> usize {
    if variant == 0 {
        0
    } else {
        2
    }
}

#[kani::proof]
#[kani::unwind(6)]
fn codegen_if_layout_contract() {
    if_case(0);
    if_case(1);
    if_case(2);
}

fn if_case(variant: usize) {
    let f = ManuallyDrop::new(If { test_expr: atom(1), then_expr: atom(2), else_expr: atom(3) });
    set_widths(&[1, 2, 3], variant);
    let mut cm = ConstantMap;
    let an = ManuallyDrop::new(Analysis::ghost_new());
    let pre = pre_len(variant);
    let mut g = ManuallyDrop::new(gen(&mut cm, &an, pre));
    assert!(g.visit_if(&f).is_ok());
    prefix_untouched(&g, pre);
    let if_at = code_of(&g, pre, 1);
    let then_at = if_at + 1;
    let jmp_at = code_of(&g, then_at, 2);
    let else_at = jmp_at + 1;
    let end = code_of(&g, else_at, 3);
    assert!(g.instructions.len() == end, "nothing else emitted");
    assert!(is(&g, if_at, OpCode::IF, else_at), "IF: a false test continues at the first else instruction");
    assert!(is(&g, jmp_at, OpCode::JMP, end), "JMP: the then branch skips the else code");
}

fn begin_case(n: usize, variant: usize) {
    let mut exprs = SVec::with_capacity(4);
    let mut i = 0;
    while i < n {
        exprs.push(atom(i as u32 + 1));
        i += 1;
    }
    let b = ManuallyDrop::new(Begin { exprs });
    set_widths(&[1, 2, 3], variant);
    let mut cm = ConstantMap;
    let an = ManuallyDrop::new(Analysis::ghost_new());
    let pre = pre_len(variant);
    let mut g = ManuallyDrop::new(gen(&mut cm, &an, pre));
    assert!(g.visit_begin(&b).is_ok());
    prefix_untouched(&g, pre);
    if n == 0 {
        assert!(g.instructions.len() == pre + 1 && is(&g, pre, OpCode::VOID, 0), "an empty body evaluates to void");
        return;
    }
    let mut at = pre;
    let mut i = 0;
    while i < n {
        at = code_of(&g, at, i as u32 + 1);
        if i + 1 < n {
            assert!(is(&g, at, OpCode::POPSINGLE, 0), "the value of a non-last expression is discarded");
            at += 1;
        }
        i += 1;
    }
    assert!(g.instructions.len() == at, "the value of the last expression stays");
}

#[kani::proof]
#[kani::unwind(6)]
fn codegen_begin_layout_contract() {
    begin_case(0, 0);
    begin_case(1, 1);
    begin_case(3, 0);
    begin_case(3, 2);
}

fn contents_is(g: &CodeGenerator, i: usize, id: u32) -> bool {
    match &g.instructions[i].contents {
        Some(Expr::Atom(s)) => s.syntax_object_id == SyntaxObjectId(id),
        _ => false,
    }
}

#[kani::proof]
#[kani::unwind(6)]
fn codegen_define_layout_contract() {
    define_case(0);
    define_case(1);
}

fn define_case(variant: usize) {
    let d = ManuallyDrop::new(Define { name: atom(1), body: atom(2) });
    set_widths(&[2], variant);
    let mut cm = ConstantMap;
    let an = ManuallyDrop::new(Analysis::ghost_new());
    let pre = pre_len(variant);
    let mut g = ManuallyDrop::new(gen(&mut cm, &an, pre));
    assert!(g.visit_define(&d).is_ok());
    prefix_untouched(&g, pre);
    assert!(is(&g, pre, OpCode::SDEF, 0) && contents_is(&g, pre, 1));
    let at = code_of(&g, pre + 1, 2);
    assert!(is(&g, at, OpCode::EDEF, 0));
    assert!(is(&g, at + 1, OpCode::BIND, 0) && contents_is(&g, at + 1, 1), "bound to the defined name");
    assert!(is(&g, at + 2, OpCode::VOID, 0), "the define form evaluates to void");
    assert!(g.instructions.len() == at + 3);
}

fn call_case(n: usize, variant: usize) {
    // (f a1 .. an); operator id 1, operands 2..
    let mut args = SVec::with_capacity(4);
    args.push(atom(1));
    let mut i = 0;
    while i < n {
        args.push(atom(i as u32 + 2));
        i += 1;
    }
    let l = ManuallyDrop::new(List { args: ThinVec(ManuallyDrop::new(args)), syntax_object_id: 42, improper: false, location: Span { start: 7, end: 9 } });
    set_widths(&[2, 3], variant);
    unsafe { WIDTH[1] = 1 }; // the operator is a variable reference: one instruction
    let mut an = ManuallyDrop::new(Analysis::ghost_new());
    let kind_sel: u8 = kani::any();
    kani::assume(kind_sel < 4);
    let depth: usize = kani::any();
    kani::assume(depth >= 1 && depth < 1000);
    match kind_sel {
        0 => {}
        1 => an.call_info.insert(42, CallSiteInformation::new(CallKind::Normal, Span { start: 1, end: 2 })),
        2 => an.call_info.insert(42, CallSiteInformation::new(CallKind::TailCall, Span { start: 1, end: 2 })),
        _ => an.call_info.insert(42, CallSiteInformation::new(CallKind::SelfTailCall(depth), Span { start: 1, end: 2 })),
    }
    let mut cm = ConstantMap;
    let pre = pre_len(variant);
    let mut g = ManuallyDrop::new(gen(&mut cm, &an, pre));
    assert!(g.visit_list(&l).is_ok());
    prefix_untouched(&g, pre);
    let mut at = pre;
    let mut i = 0;
    while i < n {
        at = code_of(&g, at, i as u32 + 2);
        i += 1;
    }
    if kind_sel == 3 {
        // self tail call: jump, no operator push
        assert!(is(&g, at, OpCode::TCOJMP, n), "self tail call re-enters the function with n arguments");
        assert!(is(&g, at + 1, OpCode::PASS, depth - 1));
        assert!(g.instructions.len() == at + 2);
    } else {
        at = code_of(&g, at, 1);
        let op = if kind_sel == 2 { OpCode::TAILCALL } else { OpCode::FUNC };
        assert!(is(&g, at, op, n), "call instruction: tail opcode exactly for a recorded tail call; payload = number of operands");
        assert!(contents_is(&g, at, 1));
        assert!(g.instructions.len() == at + 1);
    }
}

#[kani::proof]
#[kani::unwind(6)]
fn codegen_call_opcode_contract() {
    call_case(0, 0);
    call_case(2, 1);
    // the empty application is an error
    let l = ManuallyDrop::new(List { args: ThinVec(ManuallyDrop::new(SVec::new())), syntax_object_id: 42, improper: false, location: Span { start: 7, end: 9 } });
    let an = ManuallyDrop::new(Analysis::ghost_new());
    let mut cm = ConstantMap;
    let mut g = ManuallyDrop::new(gen(&mut cm, &an, 0));
    assert!(g.visit_list(&l).is_err() && g.instructions.len() == 0);
}

#[kani::proof]
#[kani::unwind(6)]
fn codegen_set_opcode_contract() {
    let st = ManuallyDrop::new(Set { variable: atom(1), expr: atom(2), location: so(9, 9) });
    set_widths(&[2], 1);
    let mut an = ManuallyDrop::new(Analysis::ghost_new());
    let known: bool = kani::any();
    let kind = match kani::any::<u8>() % 7 {
        0 => IdentifierStatus::Global,
        1 => IdentifierStatus::Local,
        2 => IdentifierStatus::LocallyDefinedFunction,
        3 => IdentifierStatus::LetVar,
        4 => IdentifierStatus::Captured,
        5 => IdentifierStatus::Free,
        _ => IdentifierStatus::HeapAllocated,
    };
    let builtin: bool = kani::any();
    let slot: Option<u32> = if kani::any() { Some(kani::any()) } else { None };
    let heap: u32 = kani::any();
    kani::assume(heap < (1 << 24));
    if let Some(s) = slot {
        kani::assume(s < (1 << 24));
    }
    if known {
        let mut si = SemanticInformation::new(kind, 1, Span { start: 0, end: 0 });
        si.builtin = builtin;
        si.stack_offset = slot;
        si.read_heap_offset = Some(heap);
        an.info.insert(SyntaxObjectId(1), si);
    }
    let mut cm = ConstantMap;
    let pre = 2;
    let mut g = ManuallyDrop::new(gen(&mut cm, &an, pre));
    let r = g.visit_set(&st);
    prefix_untouched(&g, pre);
    let at = code_of(&g, pre, 2);
    let error_expected = !known || builtin || matches!(kind, IdentifierStatus::LocallyDefinedFunction | IdentifierStatus::Captured);
    if error_expected {
        assert!(r.is_err(), "not assignable: error");
        assert!(g.instructions.len() == at, "no store emitted");
    } else {
        assert!(r.is_ok());
        assert!(g.instructions.len() == at + 1);
        match kind {
            IdentifierStatus::Global | IdentifierStatus::Free => assert!(is(&g, at, OpCode::SET, slot.unwrap_or(0) as usize)),
            IdentifierStatus::Local | IdentifierStatus::LetVar => assert!(is(&g, at, OpCode::SETLOCAL, slot.unwrap_or(0) as usize), "a local is stored to its own stack slot"),
            _ => assert!(is(&g, at, OpCode::SETALLOC, heap as usize), "a heap allocated variable is stored through its heap slot"),
        }
        assert!(contents_is(&g, at, 1));
    }
}

#[kani::proof]
#[kani::unwind(6)]
fn codegen_let_layout_contract() {
    let mut bindings = SVec::with_capacity(2);
    bindings.push((atom(1), atom(2)));
    bindings.push((atom(3), atom(4)));
    let l = ManuallyDrop::new(Let { bindings, body_expr: atom(5), syntax_object_id: 77 });
    set_widths(&[2, 4, 5], 1);
    let mut an = ManuallyDrop::new(Analysis::ghost_new());
    let entry: usize = kani::any();
    kani::assume(entry < 1000);
    // (no heap-allocated variable: the per-variable records are not consulted for anything else)
    let arguments = FxHashMap::new();
    an.let_info.insert(77, LetInformation::new(entry, None, arguments));
    let mut cm = ConstantMap;
    let pre = 2;
    let mut g = ManuallyDrop::new(gen(&mut cm, &an, pre));
    assert!(g.visit_let(&l).is_ok());
    prefix_untouched(&g, pre);
    assert!(is(&g, pre, OpCode::BEGINSCOPE, 0));
    let mut at = code_of(&g, pre + 1, 2);
    assert!(is(&g, at, OpCode::LetVar, 0), "the first binding's value stays on the stack as its slot");
    at = code_of(&g, at + 1, 4);
    assert!(is(&g, at, OpCode::LetVar, 0));
    at = code_of(&g, at + 1, 5);
    assert!(is(&g, at, OpCode::LETENDSCOPE, entry), "the scope is closed at the offset recorded for this let");
    assert!(g.instructions.len() == at + 1);
}
