"""Unit `stw` (C15, engine E2): Synchronizer::stop_threads / resume_threads reach every thread of the engine."""
import os
import shutil

from vlib.common import REPO, VERIF, read, write, sha256, scan_assumptions
from vlib.extract import Extractor
from vlib import kani

NAME = "stw"
VM = "crates/steel-core/src/steel_vm/vm.rs"


def build(scratch):
    ex = Extractor()
    parts = ["#[derive(Copy, Clone, Default, Debug, PartialEq, Eq)] // real: Copy, Clone, Default, Debug\n" + ex.item(VM, "enum", "ThreadState"),
             "#[derive(Clone, Default)]\n" + ex.item(VM, "struct", "ThreadStateController"),
             ex.impl_block(VM, r"impl ThreadStateController"),
             "impl Synchronizer {\n    " + ex.fn(VM, "stop_threads") + "\n\n    " + ex.fn(VM, "resume_threads") + "\n}"]
    crate = os.path.join(scratch, "stwx")
    os.makedirs(os.path.join(crate, "src"))
    shutil.copy(os.path.join(REPO, "Cargo.lock"), os.path.join(crate, "Cargo.lock"))
    write(os.path.join(crate, "Cargo.toml"), "[package]\nname = \"stwx\"\nversion = \"0.0.0\"\nedition = \"2021\"\n\n[dependencies]\n\n[workspace]\n\n[lints.rust]\nunexpected_cfgs = { level = \"allow\", check-cfg = ['cfg(kani)'] }\n")
    prelude = read(os.path.join(VERIF, "units/stw/prelude.rs"))
    harness = read(os.path.join(VERIF, "units/stw/harness.rs"))
    write(os.path.join(crate, "src/prelude.rs"), prelude)
    write(os.path.join(crate, "src/x_vm.rs"), "#![allow(dead_code, unused_imports, unused_variables, unused_mut)]\nuse crate::prelude::*;\n\n" + "\n\n".join(parts) + "\n\n#[cfg(kani)]\n#[path = \"harness.rs\"]\nmod harness;\n")
    write(os.path.join(crate, "src/harness.rs"), harness)
    write(os.path.join(crate, "src/lib.rs"), "#![allow(dead_code, unused_imports)]\npub mod prelude;\npub mod x_vm;\n")
    meta = {"unit": NAME, "engine": "E2: verbatim item extraction into a mini crate + Kani", "items": ex.items,
            "prelude": "units/stw/prelude.rs", "prelude_sha256": sha256(prelude), "harness_sha256": sha256(harness),
            "extractor_edits": "D1 (derive lines restated; PartialEq/Eq added to ThreadState for the harness); D3",
            "assumption_scan": scan_assumptions(harness, "units/stw/harness.rs") + scan_assumptions(prelude, "units/stw/prelude.rs")}
    return crate, meta


OBS = {
    "stop_and_resume_reach_every_thread": dict(kind="bounded", bound="an engine with 2 other threads (any prior controller state) + one registered value that is not a thread handle + one non-custom value", functions=["Synchronizer::stop_threads", "Synchronizer::resume_threads", "ThreadStateController::pause_for_safepoint", "ThreadStateController::resume"],
        contract="stop_threads asks EVERY thread of the engine, the calling one included, to pause at its next safepoint (paused && PausedAtSafepoint); resume_threads releases every one of them (Running, not paused) AND unparks it; entries that are not thread handles are skipped"),
}


def run_for(scratch, tier, prop):
    return run_unit(scratch, tier)


def run_unit(scratch, tier):
    crate, meta = build(scratch)
    p = os.path.join(crate, "src/harness.rs")
    write(p, read(p) + "\n#[kani::proof]\n#[kani::unwind(5)]\nfn canary_must_fail() {\n    let mut s = Synchronizer { threads: Arc::new(Mutex(RefCell::new(Vec::new()))), state: ThreadStateController::default() };\n    s.stop_threads();\n    assert!(!paused(&s.state), \"canary: must be reported as failing\");\n}\n")
    specs = [dict(name=n, kind=o["kind"], contract=o["contract"], functions=o["functions"], bound=o.get("bound")) for n, o in OBS.items()]
    specs.append(dict(name="canary_must_fail", kind="canary", contract="assert that must fail"))
    obs, cmd, out = kani.run_harnesses(crate, specs, NAME, "stw", jobs=2, timeout=2000, harness_timeout="8m", extra_flags=["--no-assertion-reach-checks"])
    kani.attach_counterexamples(obs, crate, "stw", out)
    return obs, meta, cmd
