// Unit `stw` prelude (TRUSTED, hand written): the types the verbatim text of `Synchronizer::{stop_threads, resume_threads}`
// (steel_vm/vm.rs) mentions. ThreadState / ThreadStateController are extracted verbatim (as in unit `intr`).
//  * AtomicCell as a plain cell (one thread); the mutex around the thread list as a cell with lock().unwrap()
//  * a thread's handle is a custom value whose payload is a ThreadHandle; `as_underlying_type` is the downcast
//  * std::thread::Thread::unpark as a ghost counter
#![allow(dead_code, unused_imports, unused_variables)]
pub use std::sync::atomic::AtomicBool;
pub use std::sync::Arc;
use core::cell::{Cell, Ref, RefCell};

#[derive(Default, Debug)]
pub struct AtomicCell<T: Copy>(Cell<T>);
impl<T: Copy> AtomicCell<T> {
    pub fn new(v: T) -> Self {
        AtomicCell(Cell::new(v))
    }
    pub fn load(&self) -> T {
        self.0.get()
    }
    pub fn store(&self, v: T) {
        self.0.set(v)
    }
}
pub struct Mutex<T>(pub RefCell<T>);
impl<T> Mutex<T> {
    pub fn lock(&self) -> core::result::Result<core::cell::RefMut<'_, T>, ()> {
        Ok(self.0.borrow_mut())
    }
}
#[derive(Default)]
pub struct GhostThread {
    pub unparks: Cell<u32>,
}
impl GhostThread {
    pub fn unpark(&self) {
        self.unparks.set(self.unparks.get() + 1);
    }
}
pub struct ThreadHandle {
    pub thread: GhostThread,
    pub thread_state_manager: crate::x_vm::ThreadStateController,
}
pub trait CustomType {
    fn handle(&self) -> Option<&ThreadHandle>;
}
impl CustomType for ThreadHandle {
    fn handle(&self) -> Option<&ThreadHandle> {
        Some(self)
    }
}
pub struct NotAThread;
impl CustomType for NotAThread {
    fn handle(&self) -> Option<&ThreadHandle> {
        None
    }
}
pub trait Downcast {
    fn from(c: &dyn CustomType) -> Option<&Self>;
}
impl Downcast for ThreadHandle {
    fn from(c: &dyn CustomType) -> Option<&Self> {
        c.handle()
    }
}
pub fn as_underlying_type<T: Downcast>(c: &dyn CustomType) -> Option<&T> {
    T::from(c)
}
pub struct CustomCell(pub RefCell<Box<dyn CustomType>>);
impl CustomCell {
    pub fn read(&self) -> Ref<'_, Box<dyn CustomType>> {
        self.0.borrow()
    }
}
pub enum SteelVal {
    Void,
    Custom(&'static CustomCell),
}
pub struct ThreadContext {
    pub handle: SteelVal,
}
pub struct Synchronizer {
    pub threads: Arc<Mutex<Vec<ThreadContext>>>,
    pub state: crate::x_vm::ThreadStateController,
}
