// Contract harnesses for stopping / resuming the world (unit `stw`). Child module of x_vm.rs.
use super::*;
use crate::prelude::*;
use core::cell::RefCell;
use std::sync::atomic::Ordering;

fn thread_value(th: ThreadHandle) -> (&'static CustomCell, SteelVal) {
    let c: &'static CustomCell = Box::leak(Box::new(CustomCell(RefCell::new(Box::new(th)))));
    (c, SteelVal::Custom(c))
}

fn any_controller() -> ThreadStateController {
    let c = ThreadStateController::default();
    match kani::any::<u8>() % 4 {
        0 => {}
        1 => c.pause_for_safepoint(),
        2 => c.suspend(),
        _ => c.interrupt(),
    }
    c
}

fn paused(c: &ThreadStateController) -> bool {
    c.paused.load(Ordering::Relaxed)
}

#[kani::proof]
#[kani::unwind(5)]
fn stop_and_resume_reach_every_thread() {
    let (c1, v1) = thread_value(ThreadHandle { thread: GhostThread::default(), thread_state_manager: any_controller() });
    let (c2, v2) = thread_value(ThreadHandle { thread: GhostThread::default(), thread_state_manager: any_controller() });
    // a registered value that is not a thread handle, and a non-custom value, are skipped without failing
    let other: &'static CustomCell = Box::leak(Box::new(CustomCell(RefCell::new(Box::new(NotAThread)))));
    let list = vec![ThreadContext { handle: v1 }, ThreadContext { handle: SteelVal::Custom(other) }, ThreadContext { handle: SteelVal::Void }, ThreadContext { handle: v2 }];
    let mut s = Synchronizer { threads: Arc::new(Mutex(RefCell::new(list))), state: any_controller() };
    s.stop_threads();
    // every thread of the engine - the calling one included - is asked to pause at its next safepoint
    assert!(paused(&s.state) && s.state.state.load() == ThreadState::PausedAtSafepoint);
    {
        let (g1, g2) = (c1.read(), c2.read());
        let (h1, h2) = (g1.handle().unwrap(), g2.handle().unwrap());
        assert!(paused(&h1.thread_state_manager) && h1.thread_state_manager.state.load() == ThreadState::PausedAtSafepoint, "a thread is not asked to stop");
        assert!(paused(&h2.thread_state_manager) && h2.thread_state_manager.state.load() == ThreadState::PausedAtSafepoint, "a thread is not asked to stop");
        assert!(h1.thread.unparks.get() == 0 && h2.thread.unparks.get() == 0);
    }
    s.resume_threads();
    // ... and every one of them is released again AND woken up (a parked thread does not notice a cleared flag)
    assert!(!paused(&s.state) && s.state.state.load() == ThreadState::Running);
    let (g1, g2) = (c1.read(), c2.read());
    let (h1, h2) = (g1.handle().unwrap(), g2.handle().unwrap());
    assert!(!paused(&h1.thread_state_manager) && h1.thread_state_manager.state.load() == ThreadState::Running, "a stopped thread is never released");
    assert!(!paused(&h2.thread_state_manager) && h2.thread_state_manager.state.load() == ThreadState::Running, "a stopped thread is never released");
    assert!(h1.thread.unparks.get() >= 1 && h2.thread.unparks.get() >= 1, "a parked thread is released but never woken up");
}
