// Contract harnesses for the stack / frame handlers of VmCore (child module of x_vm; unit `vm`)
#![allow(unused_imports, dead_code)]
use super::*;
use crate::prelude::*;

const L: usize = 5;

fn code(n: u32) -> RootedInstructions {
    RootedInstructions::leak(vec![DenseInstruction::new(OpCode::PASS, u24::from_u32(n)), DenseInstruction::new(OpCode::POPPURE, u24::from_u32(0))])
}

fn lambda(arity: u16, multi: bool, tag: u32) -> Gc<ByteCodeLambda> {
    Gc::new(ByteCodeLambda { id: tag, arity, is_multi_arity: multi, body: code(tag) })
}

/// operand stack [IntV(v0), .., IntV(v4)] with symbolic contents
fn any_stack() -> (Vec<SteelVal>, [isize; L]) {
    let vals: [isize; L] = kani::any();
    let mut s = Vec::with_capacity(16);
    let mut i = 0;
    while i < L {
        s.push(SteelVal::IntV(vals[i]));
        i += 1;
    }
    (s, vals)
}

fn int_at(s: &Vec<SteelVal>, i: usize) -> Option<isize> {
    match s.get(i) {
        Some(SteelVal::IntV(v)) => Some(*v),
        _ => None,
    }
}

fn thread_with(stack: Vec<SteelVal>, frame_sp: usize, f: Gc<ByteCodeLambda>, older: usize) -> SteelThread {
    let caller_code = code(999);
    SteelThread {
        stack,
        stack_frames: FrameStack { older, top: vec![StackFrame::new(frame_sp, f, 7, caller_code)] },
    }
}

fn core_on<'a>(t: &'a mut SteelThread, sp: usize, instr: RootedInstructions) -> VmCore<'a> {
    VmCore { is_native: false, ip: 3, sp, thread: t, instructions: instr, pop_count: 1, depth: 0, result: None, ghost_slow_calls: 0 }
}

// ------------------------------------------------------------------ C09: tail calls reuse the frame
#[kani::proof]
#[kani::unwind(7)]
fn tail_call_closure_contract() {
    tail_call_closure_check(0);
    tail_call_closure_check(1);
}

#[kani::proof]
#[kani::unwind(7)]
fn tail_call_closure_two_contract() {
    tail_call_closure_check(2);
}

fn tail_call_closure_check(passed: usize) {
    let (stack, vals) = any_stack();
    let arity: u16 = kani::any();
    kani::assume(arity <= 2);
    // frame pointer: directly below the arguments, or with caller temporaries in between
    let gap: u8 = kani::any();
    kani::assume(gap <= 2);
    let fsp: usize = L - passed - gap as usize;
    let older: usize = kani::any();
    kani::assume(older < 1_000_000_000);
    let current = lambda(1, false, 1);
    let callee = lambda(arity, false, 2);
    let mut t = thread_with(stack, fsp, current, older);
    let depth0 = t.stack_frames.len();
    let mut vm = core_on(&mut t, fsp, code(1));
    let r = vm.new_handle_tail_call_closure(callee.clone(), passed);
    let ip1 = vm.ip;
    let same_code = vm.instructions.same(&callee.body);
    drop(vm);
    assert!(t.stack_frames.len() == depth0, "a tail call must not grow the frame stack");
    if passed != arity as usize {
        assert!(matches!(r, Err(e) if e.kind == ErrorKind::ArityMismatch));
        assert!(t.stack.len() == L);
    } else {
        assert!(r.is_ok());
        assert!(ip1 == 0 && same_code);
        assert!(Gc::ptr_eq(&t.stack_frames.last().unwrap().function, &callee));
        // stack' == stack[..fsp] ++ last `passed` values, in order
        assert!(t.stack.len() == fsp + passed, "operand stack keeps garbage of the caller's frame");
        let mut i = 0;
        while i < fsp {
            assert!(int_at(&t.stack, i) == Some(vals[i]), "values below the frame were touched");
            i += 1;
        }
        let mut j = 0;
        while j < passed {
            assert!(int_at(&t.stack, fsp + j) == Some(vals[L - passed + j]), "callee does not receive the arguments written at the call site");
            j += 1;
        }
    }
}

#[kani::proof]
#[kani::unwind(7)]
fn tail_call_rest_args_contract() {
    rest_args_check(0);
    rest_args_check(1);
}

#[kani::proof]
#[kani::unwind(7)]
fn tail_call_rest_args_two_contract() {
    rest_args_check(2);
}

fn rest_args_check(passed: usize) {
    let (stack, vals) = any_stack();
    // (define (f a . rest)) : arity() == 2, is_multi_arity
    let callee = lambda(2, true, 2);
    // frame pointer: directly below the arguments, or with one caller temporary in between
    let gap: bool = kani::any();
    let fsp: usize = L - passed - if gap { 1 } else { 0 };
    let mut t = thread_with(stack, fsp, lambda(1, false, 1), 0);
    let mut vm = core_on(&mut t, fsp, code(1));
    let r = vm.new_handle_tail_call_closure(callee.clone(), passed);
    drop(vm);
    assert!(t.stack_frames.len() == 1);
    if passed < 1 {
        assert!(matches!(r, Err(e) if e.kind == ErrorKind::ArityMismatch));
    } else {
        assert!(r.is_ok());
        assert!(t.stack.len() == fsp + 2);
        assert!(int_at(&t.stack, fsp) == Some(vals[L - passed]));
        match &t.stack[fsp + 1] {
            SteelVal::ListV(l) => {
                assert!(l.0.len() == passed - 1, "rest list has the wrong number of elements");
                let mut k = 0;
                while k < passed - 1 {
                    assert!(matches!(l.0[k], SteelVal::IntV(v) if v == vals[L - passed + 1 + k]), "rest list is not the surplus arguments in order");
                    k += 1;
                }
            }
            _ => assert!(false, "rest arguments must arrive as one list"),
        }
    }
}

#[kani::proof]
#[kani::unwind(7)]
fn tco_jump_contract() {
    tco_jump_check(0);
    tco_jump_check(1);
}

#[kani::proof]
#[kani::unwind(7)]
fn tco_jump_two_contract() {
    tco_jump_check(2);
}

fn tco_jump_check(passed: u32) {
    let (stack, vals) = any_stack();
    let arity: u16 = kani::any();
    kani::assume(arity <= 2);
    let gap: u8 = kani::any();
    kani::assume(gap <= 2);
    let fsp: usize = L - passed as usize - gap as usize;
    let me = lambda(arity, false, 5);
    let mut t = thread_with(stack, fsp, me.clone(), 3);
    // current instruction: TCOJMP <passed>
    let cur = RootedInstructions::leak(vec![DenseInstruction::new(OpCode::TCOJMP, u24::from_u32(passed))]);
    let mut vm = core_on(&mut t, 0, cur);
    vm.ip = 0;
    vm.sp = kani::any();
    let r = VmCore::tco_jump_handler(&mut vm);
    let (ip1, sp1) = (vm.ip, vm.sp);
    let same_code = vm.instructions.same(&me.body);
    drop(vm);
    assert!(t.stack_frames.len() == 4, "a self tail call must not grow the frame stack");
    if passed as usize != arity as usize {
        assert!(matches!(r, Err(e) if e.kind == ErrorKind::ArityMismatch));
    } else {
        assert!(r.is_ok() && ip1 == 0 && sp1 == fsp && same_code);
        assert!(t.stack.len() == fsp + passed as usize);
        let mut i = 0;
        while i < fsp {
            assert!(int_at(&t.stack, i) == Some(vals[i]));
            i += 1;
        }
        let mut j = 0;
        while j < passed as usize {
            assert!(int_at(&t.stack, fsp + j) == Some(vals[L - passed as usize + j]));
            j += 1;
        }
    }
}

#[kani::proof]
fn check_stack_overflow_contract() {
    let older: usize = kani::any();
    kani::assume(older < usize::MAX - 4);
    let mut t = SteelThread { stack: Vec::new(), stack_frames: FrameStack { older, top: Vec::new() } };
    let vm = core_on(&mut t, 0, code(1));
    let r = vm.check_stack_overflow();
    if older >= STACK_LIMIT {
        assert!(matches!(r, Err(e) if e.kind == ErrorKind::Generic), "recursion beyond the limit must end with an error value");
    } else {
        assert!(r.is_ok());
    }
    kani::cover!(older == STACK_LIMIT);
    kani::cover!(older == STACK_LIMIT + 1);
}

#[kani::proof]
#[kani::unwind(7)]
fn function_call_closure_contract() {
    let (stack, vals) = any_stack();
    let arity: u16 = kani::any();
    kani::assume(arity <= 2);
    let passed: usize = kani::any();
    kani::assume(passed <= 2);
    let older: usize = kani::any();
    kani::assume(older <= STACK_LIMIT + 2);
    let callee = lambda(arity, false, 2);
    let caller_code = code(1);
    let mut t = thread_with(stack, 0, lambda(0, false, 1), older);
    let depth0 = t.stack_frames.len();
    let mut vm = core_on(&mut t, 0, caller_code);
    let ip0 = vm.ip;
    let pc0 = vm.pop_count;
    let r = vm.handle_function_call_closure(callee.clone(), passed);
    let (ip1, sp1, pc1) = (vm.ip, vm.sp, vm.pop_count);
    let same_code = vm.instructions.same(&callee.body);
    drop(vm);
    if passed != arity as usize {
        assert!(matches!(r, Err(e) if e.kind == ErrorKind::ArityMismatch));
        assert!(t.stack_frames.len() == depth0 && t.stack.len() == L);
    } else {
        assert!(t.stack_frames.len() == depth0 + 1, "a call pushes exactly one frame");
        let f = t.stack_frames.last().unwrap();
        assert!(f.sp as usize == L - passed && f.ip as usize == ip0 + 1 && f.instructions.same(&caller_code));
        assert!(Gc::ptr_eq(&f.function, &callee));
        assert!(t.stack.len() == L);
        let mut j = 0;
        while j < passed {
            assert!(int_at(&t.stack, L - passed + j) == Some(vals[L - passed + j]));
            j += 1;
        }
        if depth0 + 1 >= STACK_LIMIT {
            assert!(matches!(r, Err(e) if e.kind == ErrorKind::Generic), "non-tail recursion past the limit must be an error value");
        } else {
            assert!(r.is_ok() && ip1 == 0 && sp1 == L - passed && pc1 == pc0 + 1 && same_code);
        }
    }
}

// ------------------------------------------------------------------ C01: local variable slots
#[kani::proof]
#[kani::unwind(7)]
fn local_read_contract() {
    let (stack, vals) = any_stack();
    let sp: usize = kani::any();
    let idx: usize = kani::any();
    kani::assume(sp <= 2 && idx <= 2);
    let mut t = thread_with(stack, sp, lambda(0, false, 1), 0);
    let mut vm = core_on(&mut t, sp, code(1));
    let ip0 = vm.ip;
    assert!(vm.handle_local(idx).is_ok());
    assert!(vm.ip == ip0 + 1 && vm.sp == sp);
    drop(vm);
    assert!(t.stack.len() == L + 1);
    assert!(int_at(&t.stack, L) == Some(vals[sp + idx]), "a variable evaluates to the value bound to it");
    let mut i = 0;
    while i < L {
        assert!(int_at(&t.stack, i) == Some(vals[i]));
        i += 1;
    }
}

/// the specialised READLOCALn / MOVEREADLOCALn forms agree with the general ones
#[kani::proof]
#[kani::unwind(7)]
fn local_fast_path_arms_contract() {
    let (stack, vals) = any_stack();
    let sp: usize = kani::any();
    kani::assume(sp <= 1);
    let n: usize = kani::any();
    kani::assume(n <= 3);
    let mv: bool = kani::any();
    let mut t = thread_with(stack, sp, lambda(0, false, 1), 0);
    let mut vm = core_on(&mut t, sp, code(1));
    let ip0 = vm.ip;
    let r = match (mv, n) {
        (false, 0) => local_handler0(&mut vm),
        (false, 1) => local_handler1(&mut vm),
        (false, 2) => local_handler2(&mut vm),
        (false, _) => local_handler3(&mut vm),
        (true, 0) => vm.arm_movereadlocal0(),
        (true, 1) => vm.arm_movereadlocal1(),
        (true, 2) => vm.arm_movereadlocal2(),
        (true, _) => vm.arm_movereadlocal3(),
    };
    assert!(r.is_ok());
    assert!(vm.ip == ip0 + 1 && vm.sp == sp);
    drop(vm);
    assert!(t.stack.len() == L + 1);
    assert!(int_at(&t.stack, L) == Some(vals[sp + n]), "the specialised form reads another local than the general one");
    let mut i = 0;
    while i < L {
        if mv && i == sp + n {
            assert!(matches!(t.stack[i], SteelVal::Void), "the moved-from slot must not keep a second reference");
        } else {
            assert!(int_at(&t.stack, i) == Some(vals[i]));
        }
        i += 1;
    }
}

#[kani::proof]
#[kani::unwind(7)]
fn constant_arms_contract() {
    let (stack, vals) = any_stack();
    let mut t = thread_with(stack, 0, lambda(0, false, 1), 0);
    let mut vm = core_on(&mut t, 0, code(1));
    let ip0 = vm.ip;
    let k: u8 = kani::any();
    kani::assume(k < 6);
    let r = match k {
        0 => vm.arm_true(),
        1 => vm.arm_false(),
        2 => vm.arm_loadint0(),
        3 => vm.arm_loadint1(),
        4 => vm.arm_loadint2(),
        _ => vm.arm_void(),
    };
    assert!(r.is_ok() && vm.ip == ip0 + 1);
    drop(vm);
    assert!(t.stack.len() == L + 1);
    let ok = match (k, &t.stack[L]) {
        (0, SteelVal::BoolV(true)) => true,
        (1, SteelVal::BoolV(false)) => true,
        (2, SteelVal::IntV(0)) => true,
        (3, SteelVal::IntV(1)) => true,
        (4, SteelVal::IntV(2)) => true,
        (5, SteelVal::Void) => true,
        _ => false,
    };
    assert!(ok, "a constant instruction pushes another value");
    let mut i = 0;
    while i < L {
        assert!(int_at(&t.stack, i) == Some(vals[i]));
        i += 1;
    }
}

#[kani::proof]
#[kani::unwind(7)]
fn local_move_contract() {
    let (stack, vals) = any_stack();
    let sp: usize = kani::any();
    let idx: usize = kani::any();
    kani::assume(sp <= 2 && idx <= 2);
    let mut t = thread_with(stack, sp, lambda(0, false, 1), 0);
    let mut vm = core_on(&mut t, sp, code(1));
    assert!(vm.handle_move_local(idx).is_ok());
    drop(vm);
    assert!(t.stack.len() == L + 1);
    assert!(int_at(&t.stack, L) == Some(vals[sp + idx]));
    let mut i = 0;
    while i < L {
        if i == sp + idx {
            assert!(matches!(t.stack[i], SteelVal::Void), "the moved-from slot must not keep a second reference");
        } else {
            assert!(int_at(&t.stack, i) == Some(vals[i]));
        }
        i += 1;
    }
}

#[kani::proof]
#[kani::unwind(7)]
fn local_set_contract() {
    let (stack, vals) = any_stack();
    let sp: usize = kani::any();
    let idx: usize = kani::any();
    kani::assume(sp <= 1 && idx <= 2);
    let mut t = thread_with(stack, sp, lambda(0, false, 1), 0);
    let mut vm = core_on(&mut t, sp, code(1));
    // the value to assign is on top of the stack (vals[4])
    vm.handle_set_local(idx);
    drop(vm);
    assert!(t.stack.len() == L);
    assert!(int_at(&t.stack, sp + idx) == Some(vals[L - 1]), "assignment did not reach the variable's slot");
    assert!(int_at(&t.stack, L - 1) == Some(vals[sp + idx]) || sp + idx == L - 1);
    let mut i = 0;
    while i < L - 1 {
        if i != sp + idx {
            assert!(int_at(&t.stack, i) == Some(vals[i]), "assignment touched another variable");
        }
        i += 1;
    }
    // jit variant: value passed directly
    let (stack2, vals2) = any_stack();
    let mut t2 = thread_with(stack2, sp, lambda(0, false, 1), 0);
    let mut vm2 = core_on(&mut t2, sp, code(1));
    let nv: isize = kani::any();
    let old = vm2.handle_set_local_value(idx, SteelVal::IntV(nv));
    drop(vm2);
    assert!(matches!(old, SteelVal::IntV(o) if o == vals2[sp + idx]));
    assert!(int_at(&t2.stack, sp + idx) == Some(nv) && t2.stack.len() == L);
}

#[kani::proof]
fn u24_roundtrip_contract() {
    let n: u32 = kani::any();
    kani::assume(n < (1 << 24));
    assert!(u24::from_u32(n).to_u32() == n);
    assert!(u24::from_usize(n as usize).to_usize() == n as usize);
    assert!(u24::from_u32(n).to_usize() == n as usize);
    let m: u32 = kani::any();
    kani::assume(m < (1 << 24) && n + m < (1 << 24));
    assert!((u24::from_u32(n) + u24::from_u32(m)).to_u32() == n + m);
    let op_i: usize = kani::any();
    kani::assume(op_i < MAX_OPCODE_SIZE);
    let d = DenseInstruction::new(OPCODES_ARRAY[op_i], u24::from_u32(n));
    assert!(d.op_code == OPCODES_ARRAY[op_i] && d.payload_size.to_u32() == n);
}

// ------------------------------------------------------------------ C10: (- local k) fast path of the interpreter loop
#[kani::proof]
#[kani::unwind(4)]
fn subimmediate_arm_contract() {
    let l: isize = kani::any();
    let k: u32 = kani::any();
    kani::assume(k < (1 << 24));
    let kind: u8 = kani::any();
    let local = match kind % 3 {
        0 => SteelVal::IntV(l),
        1 => SteelVal::NumV(kani::any()),
        _ => SteelVal::BoolV(true),
    };
    let fl = if let SteelVal::NumV(f) = &local { *f } else { 0.0 };
    let mut t = thread_with(vec![SteelVal::Void, local], 1, lambda(0, false, 1), 0);
    // READLOCAL 0 ; PUSHCONST-like immediate k
    let cur = RootedInstructions::leak(vec![
        DenseInstruction::new(OpCode::SUBIMMEDIATE, u24::from_u32(0)),
        DenseInstruction::new(OpCode::PASS, u24::from_u32(k)),
    ]);
    let mut vm = core_on(&mut t, 1, cur);
    vm.ip = 0;
    let r = vm.arm_subimmediate();
    let ip1 = vm.ip;
    drop(vm);
    match kind % 3 {
        0 => {
            assert!(r.is_ok() && ip1 == 2 && t.stack.len() == 3);
            let want = l as i128 - k as i128;
            match &t.stack[2] {
                SteelVal::IntV(v) => assert!(*v as i128 == want),
                SteelVal::BigNum(b) => assert!(b.0 == want && (want < isize::MIN as i128 || want > isize::MAX as i128), "wrong or non-canonical bignum"),
                _ => assert!(false),
            }
        }
        1 => {
            assert!(r.is_ok() && t.stack.len() == 3);
            assert!(matches!(&t.stack[2], SteelVal::NumV(x) if x.to_bits() == (fl - k as f64).to_bits() || (x.is_nan() && (fl - k as f64).is_nan())));
        }
        _ => {
            assert!(matches!(r, Err(e) if e.kind == ErrorKind::TypeMismatch));
            assert!(t.stack.len() == 2);
        }
    }
}

// ------------------------------------------------------------------ C10/C01: (<= local k) fast paths
#[kani::proof]
#[kani::unwind(4)]
fn lteimmediate_arms_contract() {
    let l: isize = kani::any();
    let k: u32 = kani::any();
    let target: u32 = kani::any();
    kani::assume(k < (1 << 24) && target < (1 << 24));
    let number: bool = kani::any();
    let fused: bool = kani::any();
    let local = if number { SteelVal::IntV(l) } else { SteelVal::BoolV(true) };
    let mut t = thread_with(vec![SteelVal::Void, local], 1, lambda(0, false, 1), 0);
    let cur = RootedInstructions::leak(vec![
        DenseInstruction::new(if fused { OpCode::LTEIMMEDIATEIF } else { OpCode::LTEIMMEDIATE }, u24::from_u32(0)),
        DenseInstruction::new(OpCode::PASS, u24::from_u32(k)),
        DenseInstruction::new(OpCode::IF, u24::from_u32(target)),
        DenseInstruction::new(OpCode::POPPURE, u24::from_u32(0)),
    ]);
    let mut vm = core_on(&mut t, 1, cur);
    vm.ip = 0;
    let r = if fused { vm.arm_lteimmediateif() } else { vm.arm_lteimmediate() };
    let ip1 = vm.ip;
    drop(vm);
    if !number {
        assert!(matches!(r, Err(e) if e.kind == ErrorKind::TypeMismatch));
        assert!(t.stack.len() == 2);
        return;
    }
    assert!(r.is_ok());
    let want = (l as i128) <= (k as i128);
    if fused {
        assert!(t.stack.len() == 2, "the fused compare-and-branch must not leave the boolean behind");
        assert!(ip1 == if want { 3 } else { target as usize }, "the fused compare-and-branch takes the wrong branch");
    } else {
        assert!(ip1 == 2 && t.stack.len() == 3);
        assert!(matches!(&t.stack[2], SteelVal::BoolV(b) if *b == want), "(<= local k) is not l <= k");
    }
    assert!(matches!(&t.stack[1], SteelVal::IntV(v) if *v == l) && matches!(&t.stack[0], SteelVal::Void));
}

// ------------------------------------------------------------------ the TCOJMP arm of the interpreter loop
fn tcojmp_arm_check(multi: bool, passed: u32) {
    let (stack, vals) = any_stack();
    let arity: u16 = if multi { 2 } else { kani::any() };
    kani::assume(arity <= 2);
    let gap: bool = kani::any();
    let fsp: usize = L - passed as usize - if gap { 1 } else { 0 };
    let me = lambda(arity, multi, 5);
    let mut t = thread_with(stack, fsp, me.clone(), 3);
    let mut vm = core_on(&mut t, fsp, me.body);
    let r = vm.arm_tcojmp(u24::from_u32(passed));
    let ip1 = vm.ip;
    drop(vm);
    assert!(t.stack_frames.len() == 4, "a self tail call must not grow the frame stack");
    if !multi {
        if passed as usize != arity as usize {
            assert!(matches!(r, Err(e) if e.kind == ErrorKind::ArityMismatch));
        } else {
            assert!(r.is_ok() && ip1 == 0);
            assert!(t.stack.len() == fsp + passed as usize);
            let mut j = 0;
            while j < passed as usize {
                assert!(int_at(&t.stack, fsp + j) == Some(vals[L - passed as usize + j]));
                j += 1;
            }
        }
    } else if passed < 1 {
        assert!(matches!(r, Err(e) if e.kind == ErrorKind::ArityMismatch));
    } else {
        // (define (f a . rest)): the new frame is [a, (rest ...)]
        assert!(r.is_ok() && ip1 == 0);
        assert!(t.stack.len() == fsp + 2, "the frame of a variadic self tail call is cut at the wrong slot");
        assert!(int_at(&t.stack, fsp) == Some(vals[L - passed as usize]), "first parameter lost in a variadic self tail call");
        match &t.stack[fsp + 1] {
            SteelVal::ListV(l) => {
                assert!(l.0.len() == passed as usize - 1);
                let mut k = 0;
                while k < passed as usize - 1 {
                    assert!(matches!(l.0[k], SteelVal::IntV(v) if v == vals[L - passed as usize + 1 + k]));
                    k += 1;
                }
            }
            _ => assert!(false, "rest arguments must arrive as one list"),
        }
    }
    let mut i = 0;
    while i < fsp {
        assert!(int_at(&t.stack, i) == Some(vals[i]), "values below the frame were touched");
        i += 1;
    }
}

#[kani::proof]
#[kani::unwind(7)]
fn tcojmp_arm_contract() {
    tcojmp_arm_check(false, 1);
    tcojmp_arm_check(false, 2);
    tcojmp_arm_check(true, 0);
    tcojmp_arm_check(true, 1);
    tcojmp_arm_check(true, 2);
}

// ------------------------------------------------------------------ host-initiated calls leave no residue
fn call_with_args_check(arity: u16, nargs: usize, leaves: usize, fails: bool) {
    let (stack, vals) = any_stack();
    let callee = lambda(arity, false, 2);
    let mut t = thread_with(stack, 0, lambda(0, false, 1), 0);
    let depth0 = t.stack_frames.len();
    unsafe {
        CALLEE_ENTERED = 0;
        CALLEE_LEAVES = leaves;
        CALLEE_FAILS = fails;
    }
    let a: isize = kani::any();
    let b: isize = kani::any();
    let mut vm = core_on(&mut t, 0, code(1));
    let r = if nargs == 0 {
        vm.call_with_args(&callee, core::iter::empty())
    } else if nargs == 1 {
        vm.call_with_args(&callee, [SteelVal::IntV(a)])
    } else {
        vm.call_with_args(&callee, [SteelVal::IntV(a), SteelVal::IntV(b)])
    };
    drop(vm);
    let entered = unsafe { CALLEE_ENTERED };
    if nargs != arity as usize {
        assert!(matches!(r, Err(e) if e.kind == ErrorKind::ArityMismatch) && entered == 0, "a host call with the wrong number of arguments must not run the function");
    } else {
        assert!(entered == 1);
        unsafe {
            assert!(CALLEE_STACK_LEN == L + nargs && CALLEE_SP == L, "the callee must see exactly the given arguments above the old stack");
        }
        assert!(r.is_ok() == !fails);
    }
    assert!(t.stack.len() == L, "a finished or failed host call left values on the operand stack");
    assert!(t.stack_frames.len() == depth0, "a finished or failed host call left a frame behind");
    let mut i = 0;
    while i < L {
        assert!(int_at(&t.stack, i) == Some(vals[i]));
        i += 1;
    }
}

/// the call happens: value or error, with or without temporaries left by the callee
#[kani::proof]
#[kani::unwind(7)]
fn call_with_args_leaves_no_residue() {
    call_with_args_check(1, 1, 2, true);
}

#[kani::proof]
#[kani::unwind(7)]
fn call_with_args_ok_leaves_no_residue() {
    call_with_args_check(2, 2, 1, false);
}

/// (b)-half / fixed: the call is rejected for its argument count before the function runs
#[kani::proof]
#[kani::unwind(7)]
fn call_with_args_arity_error_leaves_no_residue() {
    call_with_args_check(1, 2, 0, false);
    call_with_args_check(2, 1, 0, false);
    call_with_args_check(0, 1, 0, false);
}


// ------------------------------------------------------------------ conditional / sequencing arms of the interpreter loop
fn any_test_value() -> SteelVal {
    match kani::any::<u8>() % 3 {
        0 => SteelVal::BoolV(kani::any()),
        1 => SteelVal::IntV(kani::any()),
        _ => SteelVal::Void,
    }
}

#[kani::proof]
#[kani::unwind(7)]
fn if_jmp_arm_contract() {
    // IF
    let (mut stack, vals) = any_stack();
    let test = any_test_value();
    let is_false = matches!(&test, SteelVal::BoolV(false));
    stack.push(test);
    let mut t = thread_with(stack, 0, lambda(0, false, 1), 0);
    let target: u32 = kani::any();
    kani::assume(target < (1 << 24));
    let ip0: usize = kani::any();
    kani::assume(ip0 < 1000);
    let mut vm = core_on(&mut t, 0, code(1));
    vm.ip = ip0;
    assert!(vm.arm_if(u24::from_u32(target)).is_ok());
    let ip1 = vm.ip;
    // JMP
    assert!(vm.arm_jmp(u24::from_u32(target)).is_ok());
    let ip2 = vm.ip;
    drop(vm);
    assert!(ip1 == if is_false { target as usize } else { ip0 + 1 }, "IF: only #f selects the else branch");
    assert!(ip2 == target as usize, "JMP continues at its target");
    assert!(t.stack.len() == L, "IF consumed exactly the test value, JMP nothing");
    let mut i = 0;
    while i < L {
        assert!(int_at(&t.stack, i) == Some(vals[i]));
        i += 1;
    }
    // POPSINGLE
    let mut vm = core_on(&mut t, 0, code(1));
    vm.ip = ip0;
    assert!(vm.arm_popsingle().is_ok());
    let ip3 = vm.ip;
    drop(vm);
    assert!(ip3 == ip0 + 1 && t.stack.len() == L - 1);
    let mut i = 0;
    while i + 1 < L {
        assert!(int_at(&t.stack, i) == Some(vals[i]));
        i += 1;
    }
}

fn let_end_scope_check(frame_offset: usize, nvars: usize) {
    // [.. frame_offset values below the frame ..][k values of the function before the let][nvars let variables][body value]
    let (stack, vals) = any_stack();
    let k = L - 1 - nvars - frame_offset; // slots of the frame that precede the let
    let mut t = thread_with(stack, frame_offset, lambda(0, false, 1), 0);
    let cur = RootedInstructions::leak(vec![DenseInstruction::new(OpCode::LETENDSCOPE, u24::from_usize(k))]);
    let mut vm = core_on(&mut t, frame_offset, cur);
    vm.ip = 0;
    assert!(let_end_scope_handler(&mut vm).is_ok());
    let ip1 = vm.ip;
    drop(vm);
    assert!(ip1 == 1);
    assert!(t.stack.len() == frame_offset + k + 1, "exactly the let's variables are removed");
    assert!(int_at(&t.stack, frame_offset + k) == Some(vals[L - 1]), "the body's value stays on top");
    let mut i = 0;
    while i < frame_offset + k {
        assert!(int_at(&t.stack, i) == Some(vals[i]), "everything below the let is untouched");
        i += 1;
    }
}

#[kani::proof]
#[kani::unwind(7)]
fn let_end_scope_contract() {
    let_end_scope_check(0, 0);
    let_end_scope_check(0, 2);
    let_end_scope_check(2, 1);
    let_end_scope_check(1, 2);
}
