"""Unit `vm` (C09, C01, C10 fast paths; engine E2): stack/frame handlers of VmCore extracted verbatim."""
import os
import re
import shutil

from vlib.common import REPO, VERIF, AnchorLost, read, write, sha256, scan_assumptions
from vlib.extract import Extractor
from vlib import kani

NAME = "vm"
VM = "crates/steel-core/src/steel_vm/vm.rs"
INSTR = "crates/steel-core/src/core/instructions.rs"

METHODS = ["new_handle_tail_call_closure", "adjust_stack_for_multi_arity", "handle_function_call_closure", "check_stack_overflow",
           "get_offset", "handle_local", "handle_move_local", "move_from_stack", "handle_set_local", "handle_set_local_value",
           "tco_jump_handler"]


def build(scratch):
    ex = Extractor()
    src = ex.src(VM)
    # field lists the prelude restates must still be there
    vmcore = ex.item(VM, "struct", "VmCore")
    for f in ["pub(crate) is_native: bool", "pub(crate) ip: usize", "pub(crate) sp: usize", "pub(crate) thread: &'a mut SteelThread",
              "pub(crate) instructions: RootedInstructions", "pub(crate) pop_count: usize", "pub(crate) depth: usize",
              "pub(crate) result: Option<Result<SteelVal>>"]:
        if f not in vmcore:
            raise AnchorLost(f"VmCore field changed: {f}")
    thread = ex.item(VM, "struct", "SteelThread")
    for f in ["pub(crate) stack: Vec<SteelVal>", "stack_frames: Vec<StackFrame>"]:
        if f not in thread:
            raise AnchorLost(f"SteelThread field changed: {f}")
    ex.items = []  # the two structs above are only checked, not copied
    consts = [ex.item(VM, "const", "STACK_LIMIT"), ex.item(VM, "const", "CHECK_STACK_OVERFLOW"),
              ex.fn(VM, "cold"), ex.fn(VM, "likely"), ex.fn(VM, "unlikely")]
    frame = ["#[derive(Debug, Clone)]\n" + ex.item(VM, "struct", "StackFrame")]
    fs, fob, fend = ex.impl_range(VM, r"impl StackFrame")
    frame.append("impl StackFrame {\n    " + ex.fn(VM, "new", within=(fob, fend), occurrence=0) + "\n\n    " + ex.fn(VM, "set_function", within=(fob, fend)) + "\n}")
    methods = [ex.fn(VM, m) for m in METHODS]
    # cut_sequence has a cfg(feature = "dynamic") body only: the baseline configuration compiles it to nothing
    methods.append("#[inline(always)]\n    fn cut_sequence(&mut self) {}")
    methods.append(ex.fn(VM, "call_with_args"))
    tco = ex.match_arm_block(VM, r"op_code: OpCode::TCOJMP,\s*payload_size,\s*\.\.\s*\}")
    methods.append("/// D6: body of the `OpCode::TCOJMP` arm of VmCore::vm, wrapped into a method (the arm binds `payload_size`)\n    fn arm_tcojmp(&mut self, payload_size: u24) -> Result<()> " + "{\n        " + tco + "\n        Ok(())\n    }")
    for (opn, fname, binds) in [("IF", "arm_if", True), ("JMP", "arm_jmp", True), ("POPSINGLE", "arm_popsingle", False)]:
        pat = r"op_code: OpCode::" + opn + (r",\s*payload_size,\s*\.\.\s*\}" if binds else r",\s*\.\.\s*\}")
        body = ex.match_arm_block(VM, pat)
        methods.append(f"/// D6: body of the `OpCode::{opn}` arm of VmCore::vm, wrapped into a method" + (" (the arm binds `payload_size`)" if binds else "")
                       + f"\n    fn {fname}(&mut self" + (", payload_size: u24" if binds else "") + ") -> Result<()> {\n        " + body + "\n        Ok(())\n    }")
    for opn in ["MOVEREADLOCAL0", "MOVEREADLOCAL1", "MOVEREADLOCAL2", "MOVEREADLOCAL3", "TRUE", "FALSE", "LOADINT0", "LOADINT1", "LOADINT2", "VOID"]:
        body = ex.match_arm_block(VM, r"op_code: OpCode::" + opn + r",\s*\.\.\s*\}")
        methods.append(f"/// D6: body of the `OpCode::{opn}` arm of VmCore::vm, wrapped into a method\n    fn arm_{opn.lower()}(&mut self) -> Result<()> {{\n        " + body + "\n        Ok(())\n    }")
    for opn in ["LTEIMMEDIATE", "LTEIMMEDIATEIF"]:
        body = ex.match_arm_block(VM, r"op_code: OpCode::" + opn + r",\s*\.\.\s*\}")
        methods.append(f"/// D6: body of the `OpCode::{opn}` arm of VmCore::vm, wrapped into a method\n    fn arm_{opn.lower()}(&mut self) -> Result<()> {{\n        " + body + "\n        Ok(())\n    }")
    arm = ex.match_arm_block(VM, r"op_code: OpCode::SUBIMMEDIATE,\s*\.\.\s*\}")
    methods.append("/// D6: body of the `OpCode::SUBIMMEDIATE` arm of VmCore::vm, wrapped into a method\n    fn arm_subimmediate(&mut self) -> Result<()> " + "{\n        " + arm + "\n        Ok(())\n    }")
    RV = "crates/steel-core/src/rvals.rs"
    free_fns = [ex.fn(VM, "local_handler0"), ex.fn(VM, "local_handler1"), ex.fn(VM, "local_handler2"), ex.fn(VM, "local_handler3"),
                "impl SteelVal {\n    " + ex.item(RV, "const", "INT_ZERO") + "\n    " + ex.item(RV, "const", "INT_ONE") + "\n    " + ex.item(RV, "const", "INT_TWO") + "\n}",
                ex.fn(VM, "let_end_scope_handler"), ex.fn(VM, "let_end_scope_handler_with_payload"),
                "impl SteelVal {\n    " + ex.fn("crates/steel-core/src/rvals.rs", "is_truthy") + "\n}"]
    ins = ["#[derive(Copy, Clone, Debug, PartialEq, Eq, Hash)] // real: + Serialize, Deserialize\n" + ex.item(INSTR, "struct", "DenseInstruction"),
           "#[derive(Copy, Clone, PartialEq, PartialOrd, Eq, Ord, Hash, Debug)]\n#[allow(non_camel_case_types)]\n#[repr(transparent)]\n" + ex.item(INSTR, "struct", "u24"),
           ex.impl_block(INSTR, r"impl Add for u24"), ex.impl_block(INSTR, r"impl u24"), ex.impl_block(INSTR, r"impl DenseInstruction")]
    allow = "#![allow(dead_code, unused_imports, unused_variables, unreachable_patterns, unused_mut, unused_parens)]\n"
    crate = os.path.join(scratch, "vmx")
    os.makedirs(os.path.join(crate, "src"))
    shutil.copy(os.path.join(REPO, "Cargo.lock"), os.path.join(crate, "Cargo.lock"))
    write(os.path.join(crate, "Cargo.toml"), f"""[package]
name = "vmx"
version = "0.0.0"
edition = "2021"

[features]
default = ["jit2"]
jit2 = []

[dependencies]
steel-gen = {{ path = "{REPO}/crates/steel-gen" }}
num-traits = "=0.2.19"

[workspace]

[lints.rust]
unexpected_cfgs = {{ level = "allow", check-cfg = ['cfg(kani)'] }}
""")
    prelude = read(os.path.join(VERIF, "units/vm/prelude.rs"))
    harness = read(os.path.join(VERIF, "units/vm/harness.rs"))
    write(os.path.join(crate, "src/prelude.rs"), prelude)
    write(os.path.join(crate, "src/x_instructions.rs"), allow + "use crate::prelude::OpCode;\nuse core::ops::Add;\n\n" + "\n\n".join(ins) + "\n")
    write(os.path.join(crate, "src/x_vm.rs"), allow + "use crate::prelude::*;\nuse crate::prelude::{format, stop, log};\nuse num_traits::{CheckedAdd, CheckedMul, CheckedSub};\n\n" + "\n\n".join(consts) + "\n\n" + "\n\n".join(frame)
          + "\n\nimpl<'a> VmCore<'a> {\n    " + "\n\n    ".join(methods) + "\n}\n\n" + "\n\n".join(free_fns) + "\n\n#[cfg(kani)]\n#[path = \"harness.rs\"]\nmod harness;\n")
    write(os.path.join(crate, "src/harness.rs"), harness)
    write(os.path.join(crate, "src/lib.rs"), "#![allow(dead_code, unused_imports, unused_macros)]\n#[macro_use]\npub mod prelude;\n"
          "pub mod core { pub mod instructions { pub use crate::prelude::core_instructions::pretty_print_dense_instructions; } }\n"
          "pub mod x_instructions;\npub mod x_vm;\n")
    meta = {"unit": NAME, "engine": "E2: verbatim item extraction into a mini crate + Kani", "items": ex.items,
            "prelude": "units/vm/prelude.rs", "prelude_sha256": sha256(prelude), "harness_sha256": sha256(harness),
            "extractor_edits": "D1; D2 (feature jit2 on; cut_sequence is empty without feature `dynamic`); D3 (methods of the several `impl VmCore` blocks gathered into one impl); D6 (SUBIMMEDIATE, LTEIMMEDIATE, LTEIMMEDIATEIF, TCOJMP, IF, JMP, POPSINGLE, MOVEREADLOCAL0-3, TRUE, FALSE, LOADINT0-2, VOID match-arm bodies wrapped into methods returning Result<()>)",
            "assumption_scan": scan_assumptions(harness, "units/vm/harness.rs") + scan_assumptions(prelude, "units/vm/prelude.rs")}
    return crate, meta


BS = "operand stack of 5 symbolic values, 0-2 arguments, 0-2 caller temporaries between frame pointer and arguments, arity <= 2"
OBS = {
    "tail_call_closure_contract": dict(props=["C09"], kind="bounded", bound=BS, functions=["VmCore::new_handle_tail_call_closure", "VmCore::adjust_stack_for_multi_arity", "StackFrame::set_function"],
                                       contract="a tail call to a fixed-arity closure REUSES the frame: frame count unchanged, stack' == stack[..sp] ++ the `arity` arguments in order, everything below sp untouched, ip' == 0, code and frame function are the callee's; wrong argument count => ArityMismatch with the frame count unchanged"),
    "tail_call_closure_two_contract": dict(props=["C09"], kind="bounded", bound=BS, functions=["VmCore::new_handle_tail_call_closure"], contract="same with two arguments passed"),
    "tco_jump_two_contract": dict(props=["C09"], kind="bounded", bound=BS, functions=["VmCore::tco_jump_handler"], contract="self tail call with two arguments passed"),
    "tail_call_rest_args_contract": dict(props=["C09", "C01"], kind="bounded", bound=BS, functions=["VmCore::new_handle_tail_call_closure", "VmCore::adjust_stack_for_multi_arity"],
                                         contract="rest-argument callee: the surplus arguments are collected, in order, into one list; frame count unchanged; too few arguments => ArityMismatch"),
    "tail_call_rest_args_two_contract": dict(props=["C09", "C01"], kind="bounded", bound=BS, functions=["VmCore::new_handle_tail_call_closure", "VmCore::adjust_stack_for_multi_arity"],
                                             contract="same with two arguments passed: the rest list holds exactly the one surplus argument"),
    "tco_jump_contract": dict(props=["C09"], kind="bounded", bound=BS, functions=["VmCore::tco_jump_handler"],
                              contract="self tail call: frame count unchanged, stack' == stack[..frame.sp] ++ arguments, ip' == 0, sp' == frame.sp; arity mismatch => error"),
    "tcojmp_arm_contract": dict(props=["C09", "C01"], kind="bounded", bound=BS, functions=["VmCore::vm (OpCode::TCOJMP arm)"],
                                contract="the interpreter loop's self tail call: stack' == stack[..sp] ++ arguments (fixed arity) or ++ [a1, list(rest)] (variadic), nothing below sp touched, ip' == 0, frame count unchanged; arity mismatch => error"),
    "call_with_args_leaves_no_residue": dict(props=["C07", "C01"], kind="bounded", bound="operand stack of 5 values, <= 2 arguments, callee leaves <= 2 temporaries", functions=["VmCore::call_with_args", "VmCore::adjust_stack_for_multi_arity"],
                                             contract="a host-initiated call: the callee sees exactly the given arguments above the old stack; whether it returns a value or an error (including an arity error before it runs) the operand stack is cut back to its old length and no frame is left behind"),
    "call_with_args_ok_leaves_no_residue": dict(props=["C07", "C01"], kind="bounded", bound="2 arguments, callee leaves 1 temporary, returns a value", functions=["VmCore::call_with_args"],
                                                contract="same for a call that returns a value"),
    "call_with_args_arity_error_leaves_no_residue": dict(props=["C07", "C01"], kind="bounded", bound="3 (arity, argument count) mismatches", functions=["VmCore::call_with_args"],
                                                         contract="a host call rejected for its argument count leaves the operand stack and the frame stack as they were"),
    "check_stack_overflow_contract": dict(props=["C09", "C07"], kind="proof", functions=["VmCore::check_stack_overflow"],
                                          contract="for EVERY frame-stack depth: Err(Generic) iff depth >= STACK_LIMIT (a depth limit that can be stepped over is a crash instead of an error value)"),
    "function_call_closure_contract": dict(props=["C09", "C01"], kind="bounded", bound=BS, functions=["VmCore::handle_function_call_closure", "StackFrame::new", "VmCore::check_stack_overflow"],
                                           contract="a non-tail call pushes exactly one frame whose sp is len-arity, return ip is ip+1 and whose saved code is the caller's; the callee sees exactly the arguments written at the call site; reaching the limit => error value; arity mismatch => ArityMismatch"),
    "local_read_contract": dict(props=["C01"], kind="bounded", bound="stack of 4, index <= 2", functions=["VmCore::handle_local", "VmCore::get_offset"],
                                contract="READLOCAL i pushes a copy of stack[sp+i]; nothing else changes; ip+1"),
    "local_move_contract": dict(props=["C01", "C03"], kind="bounded", bound="stack of 4, index <= 2", functions=["VmCore::handle_move_local", "VmCore::move_from_stack"],
                                contract="MOVEREADLOCAL i pushes stack[sp+i] and leaves #<void> in exactly that slot"),
    "local_set_contract": dict(props=["C01"], kind="bounded", bound="stack of 4, index <= 2", functions=["VmCore::handle_set_local", "VmCore::handle_set_local_value"],
                               contract="SETLOCAL i replaces exactly stack[sp+i] by the popped value and pushes the old one (a variable evaluates to the value most recently assigned)"),
    "if_jmp_arm_contract": dict(props=["C01"], kind="bounded", bound="operand stack of 5 symbolic values + the test value (any boolean, integer or void); any 24-bit target", functions=["VmCore::vm (IF arm)", "VmCore::vm (JMP arm)", "VmCore::vm (POPSINGLE arm)", "SteelVal::is_truthy"],
        contract="IF pops exactly the test value, continues at ip+1 when it is anything but #f and at the payload otherwise; JMP continues at the payload and touches no value; POPSINGLE discards exactly the top value; everything below is untouched - together with cgen's layout [test][IF else][then][JMP end][else] this is the reference semantics of `if`"),
    "let_end_scope_contract": dict(props=["C01"], kind="bounded", bound="operand stack of 5 symbolic values, frame offset 0-2, let with 0-2 variables", functions=["let_end_scope_handler", "let_end_scope_handler_with_payload", "VmCore::get_offset"],
        contract="LETENDSCOPE k removes exactly the let's variables (the slots from frame offset + k up to, not including, the top) and keeps the body's value on top; everything below the let is untouched; ip advances by one"),
    "local_fast_path_arms_contract": dict(props=["C01"], kind="bounded", bound="operand stack of 5 symbolic values, frame offset 0-1", functions=["local_handler0..3", "VmCore::vm (MOVEREADLOCAL0..3 arms)", "VmCore::handle_local", "VmCore::move_from_stack"],
        contract="the specialised forms agree with the general ones: READLOCALn pushes a copy of local n (stack[offset+n]) and changes nothing else; MOVEREADLOCALn pushes local n and leaves #<void> in exactly that slot; ip+1"),
    "constant_arms_contract": dict(props=["C01"], kind="proof", functions=["VmCore::vm (TRUE, FALSE, LOADINT0, LOADINT1, LOADINT2, VOID arms)", "SteelVal::INT_ZERO/INT_ONE/INT_TWO"],
        contract="TRUE / FALSE / LOADINT0 / LOADINT1 / LOADINT2 / VOID push exactly #t / #f / 0 / 1 / 2 / #<void>, touch nothing below, ip+1"),
    "u24_roundtrip_contract": dict(props=["C01"], kind="proof", functions=["u24::from_u32", "u24::to_u32", "u24::from_usize", "u24::to_usize", "u24::add", "DenseInstruction::new"],
                                   contract="for every n < 2^24: to(from(n)) == n (operands, jump targets and arities survive encoding); a + b exact below 2^24"),
    "lteimmediate_arms_contract": dict(props=["C10", "C01"], kind="proof", functions=["VmCore::vm (OpCode::LTEIMMEDIATE arm)", "VmCore::vm (OpCode::LTEIMMEDIATEIF arm)"],
        contract="(<= local k) on a fixnum local and every 24-bit k: LTEIMMEDIATE pushes exactly the boolean l <= k and continues at ip+2; the fused LTEIMMEDIATEIF pushes nothing and continues at ip+3 when l <= k and at the else-target stored in the instruction at ip+2 otherwise; a non-number local is a TypeMismatch; nothing below is touched (ordering of values = the contract of PartialOrd proved in unit num)"),
    "subimmediate_arm_contract": dict(props=["C10", "C01"], kind="proof", functions=["VmCore::vm (OpCode::SUBIMMEDIATE arm)"],
                                      contract="(- local k) on a fixnum local and every 24-bit k: exact l-k, fixnum if it fits else the exact bignum; flonum local: IEEE l - k; non-number: TypeMismatch; pushes exactly one value, ip+2"),
}


def run_for(scratch, tier, prop):
    crate, meta = build(scratch)
    p = os.path.join(crate, "src/harness.rs")
    write(p, read(p) + "\n#[kani::proof]\nfn canary_must_fail() {\n    let n: u32 = kani::any();\n    kani::assume(n < (1 << 24));\n    assert!(u24::from_u32(n).to_u32() != n, \"canary: must be reported as failing\");\n}\n")
    specs = [dict(name=n, kind=o["kind"], contract=o["contract"], functions=o["functions"], bound=o.get("bound"))
             for n, o in OBS.items() if prop in o["props"]]
    specs.append(dict(name="canary_must_fail", kind="canary", contract="assert that must fail"))
    obs, cmd, out = kani.run_harnesses(crate, specs, NAME, "vm", jobs=8, timeout=3000, harness_timeout="10m",
                                       extra_flags=["--no-assertion-reach-checks", "--no-overflow-checks"])
    kani.attach_counterexamples(obs, crate, "vm", out)
    return obs, meta, cmd
