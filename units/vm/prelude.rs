// Environment prelude of unit `vm` (C09 / C01 / C10 fast paths, engine E2). HAND-WRITTEN, TRUSTED.
// Restated here (NOT verified):
//   * VmCore / SteelThread / StackFrame with ONLY the fields the extracted bodies touch, under
//     their real names and types (the field lists are checked against the real struct text)
//   * `stack_frames` is a FrameStack: a Vec of the materialised top frames plus a ghost count
//     `older` of frames below them (so that depth limits can be decided for every depth)
//   * SteelVal reduced; ByteCodeLambda reduced to arity / is_multi_arity / body; Gc never frees
//   * RootedInstructions as a shared slice pointer (its real form under `rooted-instructions`)
//   * stop!/format! keep the ErrorKind, discard message and span
// REAL: OpCode (crates/steel-gen), u24 / DenseInstruction (extracted), the constants STACK_LIMIT,
// CHECK_STACK_OVERFLOW and likely/unlikely/cold (extracted).
#![allow(dead_code, unused_imports, unused_macros, unused_variables)]

pub use steel_gen::opcode::{OpCode, MAX_OPCODE_SIZE, OPCODES_ARRAY};
pub use crate::x_instructions::{u24, DenseInstruction};

#[derive(Clone, Copy, Debug, PartialEq, Eq)]
pub enum ErrorKind {
    ArityMismatch,
    TypeMismatch,
    BadSyntax,
    Generic,
}
#[derive(Clone, Copy, Debug, PartialEq, Eq)]
pub struct SteelErr {
    pub kind: ErrorKind,
}
impl SteelErr {
    pub fn set_span_if_none(self, _s: Span) -> Self {
        self
    }
}
pub type Result<T> = core::result::Result<T, SteelErr>;
#[derive(Clone, Copy, Debug, Default)]
pub struct Span;
pub struct Msg;

macro_rules! stop {
    ($type:ident => $($rest:tt)+) => {
        return Err($crate::prelude::SteelErr { kind: $crate::prelude::ErrorKind::$type })
    };
}
macro_rules! format {
    ($($rest:tt)*) => {
        $crate::prelude::Msg
    };
}
pub(crate) use {format, stop};
pub mod log {
    macro_rules! debug {
        ($($t:tt)*) => {};
    }
    pub(crate) use debug;
}

pub struct Gc<T> {
    ptr: *const T,
}
impl<T> Gc<T> {
    pub fn new(v: T) -> Self {
        Gc { ptr: Box::leak(Box::new(v)) as *const T }
    }
    pub fn ptr_eq(a: &Self, b: &Self) -> bool {
        core::ptr::eq(a.ptr, b.ptr)
    }
}
impl<T> Clone for Gc<T> {
    fn clone(&self) -> Self {
        Gc { ptr: self.ptr }
    }
}
impl<T> core::ops::Deref for Gc<T> {
    type Target = T;
    fn deref(&self) -> &T {
        unsafe { &*self.ptr }
    }
}
impl<T> core::fmt::Debug for Gc<T> {
    fn fmt(&self, f: &mut core::fmt::Formatter<'_>) -> core::fmt::Result {
        f.write_str("Gc")
    }
}

#[derive(Clone, Copy, Debug)]
pub struct RootedInstructions {
    inner: *const [DenseInstruction],
}
impl RootedInstructions {
    pub fn leak(v: Vec<DenseInstruction>) -> Self {
        RootedInstructions { inner: Box::leak(v.into_boxed_slice()) as *const [DenseInstruction] }
    }
    pub fn same(&self, o: &Self) -> bool {
        core::ptr::eq(self.inner as *const u8, o.inner as *const u8)
    }
}
impl core::ops::Deref for RootedInstructions {
    type Target = [DenseInstruction];
    fn deref(&self) -> &Self::Target {
        unsafe { &(*self.inner) }
    }
}

#[derive(Debug)]
pub struct ByteCodeLambda {
    pub id: u32,
    pub arity: u16,
    pub is_multi_arity: bool,
    pub body: RootedInstructions,
}
impl ByteCodeLambda {
    pub fn arity(&self) -> usize {
        self.arity as usize
    }
    pub fn body_exp(&self) -> RootedInstructions {
        self.body
    }
}

#[derive(Clone, Debug)]
pub struct List<T>(pub Gc<Vec<T>>);
impl<T> core::iter::FromIterator<T> for List<T> {
    fn from_iter<I: IntoIterator<Item = T>>(it: I) -> Self {
        List(Gc::new(it.into_iter().collect()))
    }
}

#[derive(Clone, Debug)]
pub enum SteelVal {
    BoolV(bool),
    NumV(f64),
    IntV(isize),
    Void,
    BigNum(Gc<BigInt>),
    Rational(()),
    BigRational(()),
    ListV(List<SteelVal>),
    Closure(Gc<ByteCodeLambda>),
}

/// ordering of the reduced SteelVal: the CALLEE CONTRACT of `PartialOrd for SteelVal` as proved in unit `num`
/// (fixnum/fixnum exact; fixnum/flonum through the conversion to f64 - exact for |i| <= 2^53, the known finding beyond)
impl PartialEq for SteelVal {
    fn eq(&self, o: &Self) -> bool {
        match (self, o) {
            (SteelVal::IntV(a), SteelVal::IntV(b)) => a == b,
            (SteelVal::NumV(a), SteelVal::NumV(b)) => a == b,
            (SteelVal::BoolV(a), SteelVal::BoolV(b)) => a == b,
            (SteelVal::Void, SteelVal::Void) => true,
            _ => false,
        }
    }
}
impl PartialOrd for SteelVal {
    fn partial_cmp(&self, o: &Self) -> Option<core::cmp::Ordering> {
        match (self, o) {
            (SteelVal::IntV(a), SteelVal::IntV(b)) => a.partial_cmp(b),
            (SteelVal::NumV(a), SteelVal::NumV(b)) => a.partial_cmp(b),
            (SteelVal::IntV(a), SteelVal::NumV(b)) => (*a as f64).partial_cmp(b),
            (SteelVal::NumV(a), SteelVal::IntV(b)) => a.partial_cmp(&(*b as f64)),
            _ => None,
        }
    }
}

/// exact 128-bit model of num-bigint, only what the VM fast paths use (see units/num/prelude.rs)
#[derive(Clone, Copy, Debug, PartialEq, Eq)]
pub struct BigInt(pub i128);
impl From<isize> for BigInt {
    fn from(v: isize) -> Self {
        BigInt(v as i128)
    }
}
impl core::ops::Sub<isize> for BigInt {
    type Output = BigInt;
    fn sub(self, r: isize) -> BigInt {
        BigInt(self.0 - r as i128)
    }
}
impl core::ops::Add<isize> for BigInt {
    type Output = BigInt;
    fn add(self, r: isize) -> BigInt {
        BigInt(self.0 + r as i128)
    }
}

#[derive(Debug, Clone)]
pub struct StackFrameAttachments;

/// the frame stack: `top` holds the materialised frames, `older` counts frames below them
pub struct FrameStack {
    pub older: usize,
    pub top: Vec<crate::x_vm::StackFrame>,
}
impl FrameStack {
    pub fn len(&self) -> usize {
        self.older + self.top.len()
    }
    pub fn last(&self) -> Option<&crate::x_vm::StackFrame> {
        self.top.last()
    }
    pub fn last_mut(&mut self) -> Option<&mut crate::x_vm::StackFrame> {
        self.top.last_mut()
    }
    pub fn push(&mut self, f: crate::x_vm::StackFrame) {
        self.top.push(f)
    }
    pub fn pop(&mut self) -> Option<crate::x_vm::StackFrame> {
        self.top.pop()
    }
}

pub struct SteelThread {
    pub stack: Vec<SteelVal>,
    pub stack_frames: FrameStack,
}

pub struct VmCore<'a> {
    pub is_native: bool,
    pub ip: usize,
    pub sp: usize,
    pub thread: &'a mut SteelThread,
    pub instructions: RootedInstructions,
    pub pop_count: usize,
    pub depth: usize,
    pub result: Option<Result<SteelVal>>,
    // ghost: what the slow path was asked to compute (delegation is checked, not the slow path)
    pub ghost_slow_calls: usize,
}
impl<'a> VmCore<'a> {
    pub fn current_span(&self) -> Span {
        Span
    }
    /// GHOST callee for host-initiated calls: records what it was entered with, leaves some
    /// temporaries behind (as an erroring evaluation does), pops its own frame (as the unwinding
    /// loop of the real function does) and returns a value or an error
    pub fn call_with_instructions_and_reset_state(&mut self, closure: RootedInstructions) -> Result<SteelVal> {
        unsafe {
            CALLEE_ENTERED += 1;
            CALLEE_STACK_LEN = self.thread.stack.len();
            CALLEE_SP = self.sp;
            let mut i = 0;
            while i < CALLEE_LEAVES {
                self.thread.stack.push(SteelVal::Void);
                i += 1;
            }
            let _ = self.thread.stack_frames.top.pop();
            if CALLEE_FAILS {
                Err(SteelErr { kind: ErrorKind::Generic })
            } else {
                Ok(SteelVal::IntV(7))
            }
        }
    }
}
pub static mut CALLEE_ENTERED: u32 = 0;
pub static mut CALLEE_STACK_LEN: usize = 0;
pub static mut CALLEE_SP: usize = 0;
pub static mut CALLEE_LEAVES: usize = 0;
pub static mut CALLEE_FAILS: bool = false;

/// slow path used by the SUBIMMEDIATE arm for non-fixnum operands: covered by unit `num`;
/// here it only reports that it was asked
pub fn subtract_primitive(args: &[SteelVal]) -> Result<SteelVal> {
    match (&args[0], &args[1]) {
        (SteelVal::NumV(l), SteelVal::IntV(r)) => Ok(SteelVal::NumV(*l - *r as f64)),
        _ => Ok(SteelVal::Void),
    }
}

pub mod core_instructions {
    pub fn pretty_print_dense_instructions(_i: &[super::DenseInstruction]) {}
}
