"""Unit `unw` (C07, C17; engine E2): the error-unwinding loop of nested VM entries (`VmCore::call_with_instructions_and_reset_state`)."""
import os
import re
import shutil

from vlib.common import REPO, VERIF, AnchorLost, read, write, sha256, scan_assumptions
from vlib.extract import Extractor
from vlib import kani

NAME = "unw"
VM = "crates/steel-core/src/steel_vm/vm.rs"
INSTR = "crates/steel-core/src/core/instructions.rs"


def build(scratch):
    ex = Extractor()
    vmcore = ex.item(VM, "struct", "VmCore")
    for f in ["pub(crate) ip: usize", "pub(crate) sp: usize", "pub(crate) thread: &'a mut SteelThread", "pub(crate) instructions: RootedInstructions",
              "pub(crate) pop_count: usize", "pub(crate) depth: usize"]:
        if f not in vmcore:
            raise AnchorLost(f"VmCore field changed: {f}")
    att = ex.item(VM, "struct", "StackFrameAttachments")
    for f in ["pub(crate) handler: Option<SteelVal>", "weak_continuation_mark: Option<WeakContinuation>"]:
        if f not in att:
            raise AnchorLost(f"StackFrameAttachments field changed: {f}")
    ex.items = []
    consts = [ex.item(VM, "const", "STACK_LIMIT")]
    frame = ["#[derive(Debug, Clone)]\n" + ex.item(VM, "struct", "StackFrame")]
    fs, fob, fend = ex.impl_range(VM, r"impl StackFrame")
    frame.append("impl StackFrame {\n    " + ex.fn(VM, "new", within=(fob, fend), occurrence=0) + "\n}")
    methods = [ex.fn(VM, "call_with_instructions_and_reset_state"), ex.fn(VM, "get_last_stack_frame_sp"),
               ex.fn(VM, "handle_pop_pure"), ex.fn(VM, "handle_pop_pure_value")]
    ins = ["#[derive(Copy, Clone, Debug, PartialEq, Eq, Hash)] // real: + Serialize, Deserialize\n" + ex.item(INSTR, "struct", "DenseInstruction"),
           "#[derive(Copy, Clone, PartialEq, PartialOrd, Eq, Ord, Hash, Debug)]\n#[allow(non_camel_case_types)]\n#[repr(transparent)]\n" + ex.item(INSTR, "struct", "u24"),
           ex.impl_block(INSTR, r"impl Add for u24"), ex.impl_block(INSTR, r"impl u24"), ex.impl_block(INSTR, r"impl DenseInstruction")]
    allow = "#![allow(dead_code, unused_imports, unused_variables, unreachable_patterns, unused_mut, unused_parens, unreachable_code)]\n"
    crate = os.path.join(scratch, "unwx")
    os.makedirs(os.path.join(crate, "src"))
    shutil.copy(os.path.join(REPO, "Cargo.lock"), os.path.join(crate, "Cargo.lock"))
    write(os.path.join(crate, "Cargo.toml"), f"""[package]
name = "unwx"
version = "0.0.0"
edition = "2021"

[features]
default = ["jit2"]
jit2 = []

[dependencies]
steel-gen = {{ path = "{REPO}/crates/steel-gen" }}

[workspace]

[lints.rust]
unexpected_cfgs = {{ level = "allow", check-cfg = ['cfg(kani)'] }}
""")
    # the vm unit's prelude, minus its ghost of the very function under contract here and its unit-struct attachments
    base = read(os.path.join(VERIF, "units/vm/prelude.rs"))
    m = re.search(r"    /// GHOST callee for host-initiated calls.*?\n    }\n(?=}\npub static mut CALLEE_ENTERED)", base, re.S)
    if not m:
        raise AnchorLost("units/vm/prelude.rs: ghost call_with_instructions_and_reset_state not found")
    base = base[:m.start()] + base[m.end():]
    if "#[derive(Debug, Clone)]\npub struct StackFrameAttachments;\n" not in base:
        raise AnchorLost("units/vm/prelude.rs: StackFrameAttachments restatement not found")
    base = base.replace("#[derive(Debug, Clone)]\npub struct StackFrameAttachments;\n", "")
    extra = read(os.path.join(VERIF, "units/unw/prelude_extra.rs"))
    prelude = base + extra
    harness = read(os.path.join(VERIF, "units/unw/harness.rs"))
    write(os.path.join(crate, "src/prelude.rs"), prelude)
    write(os.path.join(crate, "src/x_instructions.rs"), allow + "use crate::prelude::OpCode;\nuse core::ops::Add;\n\n" + "\n\n".join(ins) + "\n")
    write(os.path.join(crate, "src/x_vm.rs"), allow + "use crate::prelude::*;\nuse crate::prelude::{format, stop, log};\n\n" + "\n\n".join(consts) + "\n\n" + "\n\n".join(frame)
          + "\n\nimpl<'a> VmCore<'a> {\n    " + "\n\n    ".join(methods) + "\n}\n\n#[cfg(kani)]\n#[path = \"harness.rs\"]\nmod harness;\n")
    write(os.path.join(crate, "src/harness.rs"), harness)
    write(os.path.join(crate, "src/lib.rs"), "#![allow(dead_code, unused_imports, unused_macros, static_mut_refs)]\n#[macro_use]\npub mod prelude;\n"
          "pub mod core { pub mod instructions { pub use crate::prelude::core_instructions::pretty_print_dense_instructions; } }\n"
          "pub mod x_instructions;\npub mod x_vm;\n")
    meta = {"unit": NAME, "engine": "E2: verbatim item extraction into a mini crate + Kani", "items": ex.items,
            "prelude": "units/vm/prelude.rs (minus its ghost of call_with_instructions_and_reset_state) + units/unw/prelude_extra.rs", "prelude_sha256": sha256(prelude), "harness_sha256": sha256(harness),
            "extractor_edits": "D1; D3",
            "assumption_scan": scan_assumptions(harness, "units/unw/harness.rs") + scan_assumptions(extra, "units/unw/prelude_extra.rs")}
    return crate, meta


B = "operand stack of 3 symbolic values + 0-2 temporaries left by the failing evaluation; 0-5 older frames + 1 materialised frame of the enclosing evaluation + the callee's frame; caller's pop_count 1-3"
C0 = ("a closure called back from native code runs as a nested VM entry: the evaluation starts at instruction 0 of the callee with exactly one frame to account for; on return the caller's "
      "ip, code, pop_count and depth are restored; values below the callee's frame base are untouched; ")
RB = "operand stack of 5 symbolic values, callee frame base 1-3, 0-5 older frames"
OBS = {
    "function_return_contract": dict(kind="bounded", bound=RB, functions=["VmCore::handle_pop_pure", "VmCore::handle_pop_pure_value", "VmCore::get_last_stack_frame_sp"],
        contract="a function return (POPPURE, or the value-carrying form used by the fused instructions) removes exactly the callee's frame and everything the callee left above its frame base, puts exactly the return value there, and resumes the caller at the ip and in the code saved in the frame with sp = the caller's frame base and everything below untouched; when the last frame owned by this evaluation returns, the value is handed back and the operand stack is cut back to the frame base"),
    "nested_entry_success_contract": dict(kind="bounded", bound=B, functions=["VmCore::call_with_instructions_and_reset_state"], contract=C0 + "a successful evaluation returns its value"),
    "nested_entry_handler_contract": dict(kind="bounded", bound=B, functions=["VmCore::call_with_instructions_and_reset_state", "VmCore::get_last_stack_frame_sp", "StackFrame::new"],
        contract=C0 + "an error under a frame that carries a handler: the handler runs in that frame's slot (frame count as before, frame accounting = 1), on an operand stack cut back to the frame base plus exactly the error value, at instruction 0 of the handler - and it is NO LONGER installed while it runs (an error inside it propagates outward instead of re-entering it)"),
    "nested_entry_unhandled_error_contract": dict(kind="bounded", bound=B, functions=["VmCore::call_with_instructions_and_reset_state"],
        contract=C0 + "an error no frame of this entry handles is returned as an error value; the callee's frame is removed and the frames of the ENCLOSING evaluation are left exactly as they were (no residue, nothing of the outer evaluation unwound)"),
    "nested_entry_failing_handler_contract": dict(kind="bounded", bound=B + " (here: 0-2 older frames, 0-1 temporaries)", functions=["VmCore::call_with_instructions_and_reset_state"], contract=C0 + "same when the handler itself fails"),
}


def run_for(scratch, tier, prop):
    return run_unit(scratch, tier)


def run_unit(scratch, tier):
    crate, meta = build(scratch)
    p = os.path.join(crate, "src/harness.rs")
    write(p, read(p) + "\n#[kani::proof]\n#[kani::unwind(8)]\nfn canary_must_fail() {\n    nested_entry(false, false, false);\n    assert!(unsafe { VM_CALLS } == 0, \"canary: must be reported as failing\");\n}\n")
    specs = [dict(name=n, kind=o["kind"], contract=o["contract"], functions=o["functions"], bound=o.get("bound")) for n, o in OBS.items()]
    specs.append(dict(name="canary_must_fail", kind="canary", contract="assert that must fail"))
    obs, cmd, out = kani.run_harnesses(crate, specs, NAME, "unw", jobs=5, timeout=3000, harness_timeout="10m",
                                       extra_flags=["--no-assertion-reach-checks", "--no-overflow-checks"])
    kani.attach_counterexamples(obs, crate, "unw", out)
    return obs, meta, cmd
