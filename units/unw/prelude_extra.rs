
// ===== unit `unw` additions to the vm prelude (TRUSTED, hand written) =========================================
// `VmCore::vm` - the interpreter loop - is the GHOST CALLEE of the function under contract: every entry
// records the engine state it is entered in; the harness scripts whether the evaluation fails. The frame's
// attachments are the two real fields; continuation marks are recorded, not closed (outside this unit).
#[derive(Debug, Clone)]
pub struct WeakContinuation;
#[derive(Debug, Clone)]
pub struct StackFrameAttachments {
    pub handler: Option<SteelVal>,
    pub weak_continuation_mark: Option<WeakContinuation>,
}
pub struct DehydratedStackTrace;
impl SteelErr {
    pub fn new(kind: ErrorKind, _message: String) -> Self {
        SteelErr { kind }
    }
    pub fn with_span(self, _s: Span) -> Self {
        self
    }
    pub fn with_stack_trace(self, _t: DehydratedStackTrace) -> Self {
        self
    }
    /// the error as a first-class value handed to a handler
    pub fn into_steelval(self) -> Result<SteelVal> {
        Ok(SteelVal::IntV(ERR_VALUE))
    }
}
pub const ERR_VALUE: isize = -4242;
pub type StandardShared<T> = std::rc::Rc<T>;
pub struct EmptySet;
impl EmptySet {
    pub fn with<R>(&self, f: impl FnOnce(&StandardShared<[DenseInstruction]>) -> R) -> R {
        let e: StandardShared<[DenseInstruction]> = StandardShared::from([]);
        f(&e)
    }
}
pub static THE_EMPTY_INSTRUCTION_SET: EmptySet = EmptySet;
impl RootedInstructions {
    pub fn new(_i: StandardShared<[DenseInstruction]>) -> Self {
        RootedInstructions::leak(Vec::new())
    }
}
impl FrameStack {
    pub fn is_empty(&self) -> bool {
        self.older == 0 && self.top.is_empty()
    }
}

#[derive(Clone, Copy)]
pub struct Entry {
    pub frames: usize,
    pub pop_count: usize,
    pub ip: usize,
    pub sp: usize,
    pub stack_len: usize,
    pub top_has_handler: bool,
    pub top_of_stack_is_error: bool,
    pub depth: usize,
}
pub static mut VM_ENTRIES: [Option<Entry>; 4] = [None; 4];
pub static mut VM_CALLS: usize = 0;
/// script: does the k-th evaluation fail?
pub static mut VM_FAILS: [bool; 4] = [false; 4];
/// how many temporaries the k-th evaluation leaves on the operand stack when it stops
pub static mut VM_LEAVES: [usize; 4] = [0; 4];
pub static mut MARKS_CLOSED: usize = 0;

impl<'a> VmCore<'a> {
    pub fn vm(&mut self) -> Result<SteelVal> {
        unsafe {
            let k = VM_CALLS;
            VM_CALLS += 1;
            if k < 4 {
                VM_ENTRIES[k] = Some(Entry {
                    frames: self.thread.stack_frames.len(),
                    pop_count: self.pop_count,
                    ip: self.ip,
                    sp: self.sp,
                    stack_len: self.thread.stack.len(),
                    top_has_handler: self.thread.stack_frames.last().map(|f| f.attachments.as_ref().map(|a| a.handler.is_some()).unwrap_or(false)).unwrap_or(false),
                    top_of_stack_is_error: matches!(self.thread.stack.last(), Some(SteelVal::IntV(ERR_VALUE))),
                    depth: self.depth,
                });
            }
            let kk = if k < 4 { k } else { 3 };
            let mut i = 0;
            while i < VM_LEAVES[kk] {
                self.thread.stack.push(SteelVal::Void);
                i += 1;
            }
            if VM_FAILS[kk] {
                Err(SteelErr { kind: ErrorKind::Generic })
            } else {
                // a successful evaluation returns through its frames: it pops the `pop_count` frames it owns
                let mut n = self.pop_count;
                while n > 0 {
                    let _ = self.thread.stack_frames.top.pop();
                    n -= 1;
                }
                self.pop_count = 0;
                Ok(SteelVal::IntV(7))
            }
        }
    }
    pub fn snapshot_stack_trace(&self) -> DehydratedStackTrace {
        DehydratedStackTrace
    }
    pub fn close_continuation_marks(&self, _last: &crate::x_vm::StackFrame) -> bool {
        unsafe { MARKS_CLOSED += 1 };
        true
    }
}
