// Contract harnesses for the error-unwinding loop of nested VM entries (unit `unw`; child of x_vm)
#![allow(unused_imports, dead_code, static_mut_refs)]
use super::*;
use crate::prelude::*;

fn body(n: usize) -> RootedInstructions {
    let mut v = Vec::new();
    let mut i = 0;
    while i < n {
        v.push(DenseInstruction::new(OpCode::VOID, u24::from_u32(0)));
        i += 1;
    }
    RootedInstructions::leak(v)
}

fn lambda(id: u32, b: RootedInstructions) -> Gc<ByteCodeLambda> {
    Gc::new(ByteCodeLambda { id, arity: 1, is_multi_arity: false, body: b })
}

fn frame(sp: usize, f: &Gc<ByteCodeLambda>, handler: Option<SteelVal>, ip: usize, ins: RootedInstructions) -> StackFrame {
    let mut fr = StackFrame::new(sp, f.clone(), ip, ins);
    if let Some(h) = handler {
        fr.attachments = Some(Box::new(StackFrameAttachments { handler: Some(h), weak_continuation_mark: None }));
    }
    fr
}

fn reset() {
    unsafe {
        VM_ENTRIES = [None; 4];
        VM_CALLS = 0;
        VM_FAILS = [false; 4];
        VM_LEAVES = [0; 4];
        MARKS_CLOSED = 0;
    }
}

/// A nested VM entry (a closure called back from native code): below it sit the frames of the outer
/// evaluation (`older` of them + one materialised), on top the callee's frame pushed by the caller
/// (`call_with_args` & co.). `with_handler`: the callee's frame carries an exception handler.
fn nested_entry(with_handler: bool, evaluation_fails: bool, handler_fails: bool) {
    nested_entry_b(with_handler, evaluation_fails, handler_fails, 5, 2)
}

fn nested_entry_b(with_handler: bool, evaluation_fails: bool, handler_fails: bool, max_older: usize, max_leaves: usize) {
    reset();
    let outer_code = body(3);
    let callee_code = body(2);
    let handler_code = body(4);
    let outer_fn = lambda(1, outer_code);
    let callee_fn = lambda(2, callee_code);
    let handler_fn = lambda(3, handler_code);
    let older: usize = kani::any();
    kani::assume(older <= max_older);
    let (a, b, c): (isize, isize, isize) = (kani::any(), kani::any(), kani::any());
    kani::assume(a != ERR_VALUE && b != ERR_VALUE && c != ERR_VALUE);
    let leaves: usize = kani::any();
    kani::assume(leaves <= max_leaves);
    let mut t = SteelThread {
        stack: vec![SteelVal::IntV(a), SteelVal::IntV(b), SteelVal::IntV(c)],
        stack_frames: FrameStack {
            older,
            top: vec![frame(0, &outer_fn, None, 9, outer_code),
                      frame(2, &callee_fn, if with_handler { Some(SteelVal::Closure(handler_fn.clone())) } else { None }, 5, outer_code)],
        },
    };
    unsafe {
        VM_FAILS = [evaluation_fails, handler_fails, false, false];
        VM_LEAVES = [leaves, 0, 0, 0];
    }
    let old_pop: usize = kani::any();
    kani::assume(old_pop >= 1 && old_pop <= 3);
    let old_depth: usize = kani::any();
    kani::assume(old_depth < 100);
    let r = {
        let mut vm = VmCore { is_native: false, ip: 7, sp: 2, thread: &mut t, instructions: outer_code, pop_count: old_pop, depth: old_depth, result: None, ghost_slow_calls: 0 };
        let r = vm.call_with_instructions_and_reset_state(callee_code);
        // the caller's registers are restored whatever happened
        assert!(vm.ip == 7, "the caller's instruction pointer is not restored");
        assert!(vm.instructions.same(&outer_code), "the caller's code is not restored");
        assert!(vm.pop_count == old_pop, "the caller's frame accounting is not restored");
        assert!(vm.depth == old_depth);
        r
    };
    let e0 = unsafe { VM_ENTRIES[0].unwrap() };
    // the evaluation starts in the callee's code with exactly its own frame to account for
    assert!(e0.ip == 0 && e0.pop_count == 1 && e0.frames == older + 2 && e0.depth == old_depth + 1);
    let calls = unsafe { VM_CALLS };
    if !evaluation_fails {
        assert!(calls == 1 && r.is_ok());
    } else if !with_handler {
        // no handler inside this entry: the error is returned, the callee's frame is gone and the
        // OUTER evaluation's frames are exactly as they were (they are not this entry's to unwind)
        assert!(calls == 1 && r.is_err());
        assert!(t.stack_frames.len() == older + 1, "frames of the enclosing evaluation were unwound by a nested entry (or the callee's frame is left behind)");
        assert!(t.stack_frames.top.len() == 1 && t.stack_frames.top[0].ip == 9);
    } else {
        // the handler runs: in the callee's frame slot, on a stack cut back to that frame + the error value
        assert!(calls == 2);
        let e1 = unsafe { VM_ENTRIES[1].unwrap() };
        assert!(e1.frames == older + 2, "the handler does not run in the frame of the failed call");
        assert!(e1.pop_count == 1, "frame accounting out of step when the handler starts (one frame is owned by this entry)");
        assert!(!e1.top_has_handler, "the handler is still installed while it runs: an error inside it re-enters it");
        assert!(e1.stack_len == 3 && e1.top_of_stack_is_error, "the handler does not see exactly the error value above the frame base");
        assert!(e1.ip == 0 && e1.sp == 2);
        if handler_fails {
            assert!(r.is_err());
            assert!(t.stack_frames.len() == older + 1, "frames of the enclosing evaluation were unwound by a nested entry (or a frame is left behind)");
        } else {
            assert!(r.is_ok());
        }
    }
    // values below the callee's frame base are never touched
    assert!(matches!(t.stack[0], SteelVal::IntV(x) if x == a) && matches!(t.stack[1], SteelVal::IntV(x) if x == b));
}

/// function return: POPPURE (value on top of the operand stack) and the value-carrying form
#[kani::proof]
#[kani::unwind(24)]
fn function_return_contract() {
    reset();
    let caller_code = body(3);
    let callee_code = body(2);
    let caller_fn = lambda(1, caller_code);
    let callee_fn = lambda(2, callee_code);
    let older: usize = kani::any();
    kani::assume(older <= 5);
    let vals: [isize; 5] = kani::any();
    let fsp: usize = kani::any();
    kani::assume(fsp >= 1 && fsp <= 3);
    let rip: usize = kani::any();
    kani::assume(rip < 1000);
    let outermost: bool = kani::any();
    let with_value: bool = kani::any();
    let v: isize = kani::any();
    let mut t = SteelThread {
        stack: vec![SteelVal::IntV(vals[0]), SteelVal::IntV(vals[1]), SteelVal::IntV(vals[2]), SteelVal::IntV(vals[3]), SteelVal::IntV(vals[4])],
        stack_frames: FrameStack { older, top: vec![frame(0, &caller_fn, None, 9, caller_code), frame(fsp, &callee_fn, None, rip, caller_code)] },
    };
    let ip0: usize = 1;
    let mut vm = VmCore { is_native: false, ip: ip0, sp: fsp, thread: &mut t, instructions: callee_code, pop_count: if outermost { 1 } else { 2 }, depth: 0, result: None, ghost_slow_calls: 0 };
    let r = if with_value { vm.handle_pop_pure_value(SteelVal::IntV(v)) } else { vm.handle_pop_pure() };
    let want = if with_value { v } else { vals[4] };
    let (ip1, sp1, pc1, same_code) = (vm.ip, vm.sp, vm.pop_count, vm.instructions.same(&caller_code));
    drop(vm);
    assert!(t.stack_frames.len() == older + 1, "a return removes exactly one frame");
    if outermost {
        assert!(matches!(r, Some(Ok(SteelVal::IntV(x))) if x == want), "the value handed back is not the function's value");
        assert!(t.stack.len() == fsp && ip1 == ip0 + 1 && sp1 == 0 && pc1 == 0);
    } else {
        assert!(r.is_none());
        assert!(pc1 == 1);
        assert!(t.stack.len() == fsp + 1, "the callee's locals and temporaries are not removed (or more than them)");
        assert!(matches!(t.stack[fsp], SteelVal::IntV(x) if x == want), "the return value is not what the caller finds on top");
        assert!(ip1 == rip && same_code, "the caller is not resumed where it made the call");
        assert!(sp1 == 0, "the frame pointer is not the caller's");
    }
    let mut i = 0;
    while i < fsp {
        assert!(matches!(t.stack[i], SteelVal::IntV(x) if x == vals[i]), "a return touched the caller's part of the operand stack");
        i += 1;
    }
}

#[kani::proof]
#[kani::unwind(8)]
fn nested_entry_success_contract() {
    nested_entry(kani::any(), false, false);
}

#[kani::proof]
#[kani::unwind(8)]
fn nested_entry_handler_contract() {
    nested_entry(true, true, false);
}

#[kani::proof]
#[kani::unwind(8)]
fn nested_entry_unhandled_error_contract() {
    nested_entry(false, true, false);
}

#[kani::proof]
#[kani::unwind(8)]
fn nested_entry_failing_handler_contract() {
    nested_entry_b(true, true, true, 2, 1);
}
