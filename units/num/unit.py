"""Unit `num` (engine E2): numeric kernels of steel-core extracted verbatim into a mini crate."""
import os
import shutil

from vlib.common import REPO, VERIF, AnchorLost, read, write, sha256, scan_assumptions
from vlib.extract import Extractor
from vlib import kani

NAME = "num"
NUMBERS = "crates/steel-core/src/primitives/numbers.rs"
PRIMS = "crates/steel-core/src/primitives.rs"
RVALS = "crates/steel-core/src/rvals.rs"
CONV = "crates/steel-core/src/conversions.rs"

NUMBERS_FNS = [
    "numberp", "realp", "exactp", "inexactp",
    "subtract_primitive", "add_primitive_no_check", "add_primitive", "multiply_primitive",
    "truncate_slash", "truncate_quotient", "truncate_remainder",
    "floor_slash", "floor_quotient", "float_rem_floor", "floor_remainder",
    "euclidean_slash", "euclidean_quotient", "euclidean_remainder",
    "quotient", "remainder", "modulo",
    "divide_primitive", "number_to_float", "inexact", "exact", "abs",
    "arithmetic_shift",
    "bitwise_xor", "bitwise_ior", "bitwise_and", "bitwise_not", "even", "odd",
    "ensure_args_are_numbers", "multiply_two", "multiply_primitive_impl", "complex_reciprocal",
    "negate", "add_two", "add_two_fallible", "multiply_complex", "negate_complex", "add_complex",
    "denominator", "numerator", "zerop", "positivep", "negativep",
]

INT_TYPES_INTO = ["i32", "i16", "i8", "u8", "u16", "u32", "u64", "isize"]
INT_TYPES_FROM = ["i32", "i16", "u16", "u32", "u64", "usize", "isize"]


def build(scratch):
    ex = Extractor()
    numbers = [ex.fn(NUMBERS, f) for f in NUMBERS_FNS]
    prims = []
    # conversions / canonicalisation (primitives.rs)
    for hdr in [r"impl IntoSteelVal for Rational32", r"impl IntoSteelVal for BigInt", r"impl IntoSteelVal for BigRational",
                r"impl From<i64> for SteelVal", r"impl FromSteelVal for u8", r"impl FromSteelVal for i8",
                r"impl From<usize> for SteelVal", r"impl IntoSteelVal for usize", r"impl IntoSteelVal for u128",
                r"impl From<u128> for SteelVal", r"impl IntoSteelVal for i64", r"impl FromSteelVal for i64",
                r"impl From<char> for SteelVal", r"impl IntoSteelVal for char", r"impl FromSteelVal for char",
                r"impl<T: IntoSteelVal> IntoSteelVal for Option<T>", r"impl<T: FromSteelVal> FromSteelVal for Option<T>",
                r"impl FromSteelVal for \(\)", r"impl IntoSteelVal for \(\)", r"impl From<\(\)> for SteelVal",
                r"impl From<bool> for SteelVal", r"impl FromSteelVal for bool", r"impl IntoSteelVal for bool"]:
        prims.append(ex.impl_block(PRIMS, hdr))
    # D5: instantiate the conversion macros for exactly the arguments the real file passes
    def types(arg):
        return [t.strip() for t in arg.split(",") if t.strip()]
    seen_from, seen_into = set(), set()
    for arg in ex.macro_invocations(PRIMS, "from_f64"):
        for t in types(arg):
            prims.append(ex.macro_instance(PRIMS, "from_f64", 0, {"body": t}))
            seen_into.add(t)
    for arg in ex.macro_invocations(PRIMS, "from_for_isize"):
        for t in types(arg):
            prims.append(ex.macro_instance(PRIMS, "from_for_isize", 0, {"body": t}))
            seen_into.add(t)
    for arg in ex.macro_invocations(PRIMS, "try_from_impl"):
        if "=>" not in arg:
            raise AnchorLost("try_from_impl! invocation of unknown shape")
        variant, lst = arg.split("=>", 1)
        for t in types(lst):
            prims.append(ex.macro_instance(PRIMS, "try_from_impl", 0, {"type": variant.strip(), "body": t}))
            seen_from.add(t)
    if ex.src(PRIMS).count("macro_rules! try_from_int_impl"):
        for arg in ex.macro_invocations(PRIMS, "try_from_int_impl"):
            for t in types(arg):
                prims.append(ex.macro_instance(PRIMS, "try_from_int_impl", 0, {"body": t}))
                seen_from.add(t)
    # impls that exist as plain items for some types (present or not depending on the revision)
    for t in ["u64"]:
        if t not in seen_into:
            prims.append(ex.impl_block(PRIMS, r"impl From<%s> for SteelVal" % t))
            prims.append(ex.impl_block(PRIMS, r"impl IntoSteelVal for %s" % t))
    conv = [ex.impl_block(CONV, r"impl<A: IntoSteelVal, B: IntoSteelVal> IntoSteelVal for \(A, B\)")]
    # rvals.rs
    rv = ["#[derive(Clone, Debug, PartialEq)] // real: #[derive(Clone, Debug, Hash, PartialEq)]\n" + ex.item(RVALS, "struct", "SteelComplex"),
          ex.impl_block(RVALS, r"impl SteelComplex"),
          ex.impl_block(RVALS, r"impl IntoSteelVal for SteelComplex")]
    for f in ["integer_float_equality", "bignum_float_equality", "number_equality"]:
        rv.append(ex.fn(RVALS, f))
    rv.append(ex.impl_block(RVALS, r"impl PartialOrd for SteelVal"))

    isq = [ex.fn(NUMBERS, f) for f in ["exact_integer_sqrt", "exact_integer_impl"]]
    VMP = "crates/steel-core/src/steel_vm/primitives.rs"
    vmp = [ex.fn(VMP, f) for f in ["ensure_real", "ord_internal", "greater_than", "greater_than_equal", "less_than", "less_than_equal"]]
    hdr_allow = "#![allow(dead_code, unused_imports, unused_variables, unreachable_patterns, unused_mut)]\n"
    mod_numbers = (hdr_allow + "// imports mirror crates/steel-core/src/primitives/numbers.rs\n"
                   "use crate::gc::Gc;\nuse crate::rvals::{IntoSteelVal, Result, SteelComplex, SteelVal};\n"
                   "use crate::{steelerr, stop, throw};\nuse crate::prelude::format;\n"
                   "use core::cmp::Ordering;\nuse core::ops::{BitAnd, BitOr, BitXor, Neg};\n"
                   "use crate::prelude::{BigInt, BigRational, RatioModelExt};\nuse num_integer::Integer;\nuse num_rational::{Ratio, Rational32};\n"
                   "use num_traits::{pow::Pow, CheckedAdd, CheckedMul, Euclid, One, Signed, ToPrimitive, Zero};\n\n"
                   + "\n\n".join(numbers) + "\n\n#[cfg(kani)]\n#[path = \"harness_numbers.rs\"]\nmod harness;\n")
    mod_prims = (hdr_allow + "// imports mirror crates/steel-core/src/primitives.rs\n"
                 "use crate::gc::Gc;\nuse crate::rerrs::{ErrorKind, SteelErr};\nuse crate::rvals::{FromSteelVal, IntoSteelVal, SteelVal};\n"
                 "use crate::prelude::{format, BigInt, BigRational};\nuse core::result;\nuse num_rational::Rational32;\nuse num_traits::ToPrimitive;\n\n"
                 + "\n\n".join(prims) + "\n")
    mod_conv = (hdr_allow + "use crate::rvals::{IntoSteelVal, Result, SteelVal};\n\n" + "\n\n".join(conv) + "\n")
    mod_rvals = (hdr_allow + "// imports mirror crates/steel-core/src/rvals.rs\n"
                 "use crate::gc::Gc;\nuse crate::rerrs::{ErrorKind, SteelErr};\nuse crate::{steelerr, stop, throw};\n"
                 "use crate::prelude::{format, BigDecimal, BigInt, BigRational, IntoSteelVal, RatioModelExt, Result, SteelVal, ToBigInt};\n"
                 "use crate::prelude::SteelVal::*;\nuse crate::x_numbers::realp;\nuse core::cmp::Ordering;\nuse num_rational::Rational32;\n"
                 "use num_traits::{FromPrimitive, Signed, ToPrimitive, Zero};\n\n"
                 + "\n\n".join(rv) + "\n\n#[cfg(kani)]\n#[path = \"harness_rvals.rs\"]\nmod harness;\n")

    mod_vmp = (hdr_allow + "// imports mirror crates/steel-core/src/steel_vm/primitives.rs\n"
               "use crate::rerrs::{ErrorKind, SteelErr};\nuse crate::rvals::{Result, SteelVal};\nuse crate::{steelerr, stop, throw};\n"
               "use crate::prelude::format;\nuse crate::x_numbers::realp;\nuse core::cmp::Ordering;\n\n"
               + "\n\n".join(vmp) + "\n\n#[cfg(kani)]\n#[path = \"harness_vmprims.rs\"]\nmod harness;\n")

    mod_isqrt = (hdr_allow + "// exact-integer-sqrt with num_integer::Roots::sqrt as an ASSUMED DEPENDENCY CONTRACT (crate::prelude::isqrt_dep)\n"
                 "use crate::gc::Gc;\nuse crate::rvals::{IntoSteelVal, Result, SteelVal};\nuse crate::{steelerr, stop, throw};\nuse crate::prelude::format;\n"
                 "use crate::prelude::BigInt;\nuse crate::prelude::isqrt_dep as num_integer;\nuse crate::prelude::isqrt_dep::Roots;\nuse num_traits::Signed;\n\n"
                 + "\n\n".join(isq) + "\n\n#[cfg(kani)]\n#[path = \"harness_isqrt.rs\"]\nmod harness;\n")

    crate = os.path.join(scratch, "numx")
    os.makedirs(os.path.join(crate, "src"))
    shutil.copy(os.path.join(REPO, "Cargo.lock"), os.path.join(crate, "Cargo.lock"))
    write(os.path.join(crate, "Cargo.toml"), """[package]
name = "numx"
version = "0.0.0"
edition = "2021"

[dependencies]
num-traits = "=0.2.19"
num-integer = "=0.1.46"
num-rational = { version = "=0.4.2", default-features = false, features = ["std"] }

[workspace]

[lints.rust]
unexpected_cfgs = { level = "allow", check-cfg = ['cfg(kani)'] }
""")
    prelude = read(os.path.join(VERIF, "units/num/prelude.rs"))
    hs = {n: read(os.path.join(VERIF, "units/num", n)) for n in ("harness_common.rs", "harness_numbers.rs", "harness_rvals.rs", "harness_vmprims.rs", "harness_isqrt.rs")}
    harness = "\n".join(hs.values())
    write(os.path.join(crate, "src/prelude.rs"), prelude)
    write(os.path.join(crate, "src/x_numbers.rs"), mod_numbers)
    write(os.path.join(crate, "src/x_primitives.rs"), mod_prims)
    write(os.path.join(crate, "src/x_conversions.rs"), mod_conv)
    write(os.path.join(crate, "src/x_rvals.rs"), mod_rvals)
    write(os.path.join(crate, "src/x_vmprims.rs"), mod_vmp)
    write(os.path.join(crate, "src/x_isqrt.rs"), mod_isqrt)
    write(os.path.join(crate, "src/lib.rs"),
          "#![allow(dead_code, unused_imports, unused_macros)]\n#[macro_use]\npub mod prelude;\n"
          "pub(crate) use prelude::{steelerr, stop, throw};\n"
          "pub mod gc { pub use crate::prelude::Gc; }\n"
          "pub mod rerrs { pub use crate::prelude::{ErrorKind, SteelErr}; }\n"
          "pub mod rvals { pub use crate::prelude::{FromSteelVal, IntoSteelVal, Result, SteelVal}; pub use crate::x_rvals::*; }\n"
          "pub mod x_numbers;\npub mod x_primitives;\npub mod x_conversions;\npub mod x_rvals;\npub mod x_vmprims;\npub mod x_isqrt;\n"
          "#[cfg(kani)]\nmod harness_common;\n")
    for n, t in hs.items():
        write(os.path.join(crate, "src", n), t)
    meta = {"unit": NAME, "engine": "E2: verbatim item extraction into a mini crate + Kani",
            "items": ex.items, "prelude": "units/num/prelude.rs", "prelude_sha256": sha256(prelude),
            "harness_sha256": sha256(harness),
            "extractor_edits": "D1 (attributes/doc comments before items not copied), D5 (macro_rules instantiation: from_f64!, from_for_isize!, try_from_impl!); #[derive(..)] line of SteelComplex dropped (prelude SteelVal has no Hash)",
            "assumption_scan": scan_assumptions(harness, "units/num/harness.rs") + scan_assumptions(prelude, "units/num/prelude.rs")}
    return crate, meta


# ------------------------------------------------------------------------------------------
# obligations: name -> (properties, kind, bound, functions, contract, tier)
# ------------------------------------------------------------------------------------------
def _o(props, kind, functions, contract, bound=None, tier="quick", known=False):
    return dict(props=props, kind=("known" if known else kind), functions=functions, contract=contract, bound=bound, tier=tier)


TABLE_BOUND = "operands: all pairs of a 9-value boundary table incl. MIN/-1 (5-value table for pair-returning variants); CBMC cannot prove 64-bit division equivalences"
DIVS = ["truncate_quotient", "truncate_remainder", "quotient", "remainder", "floor_quotient", "floor_remainder", "modulo",
        "euclidean_quotient", "euclidean_remainder"]
OBS = {
    "add_two_fix_fix": _o(["C10", "C07"], "proof", ["add_two", "add_two_fallible", "BigInt::into_steelval"], "for all (isize,isize): exact a+b, fixnum iff it fits else bignum"),
    "negate_fix": _o(["C10", "C07"], "proof", ["negate"], "for all isize: exact -a (bignum for MIN)"),
    "subtract_unary_fix": _o(["C10", "C07"], "proof", ["subtract_primitive", "negate", "ensure_args_are_numbers"], "(- a) == -a exactly; () -> ArityMismatch; non-number -> TypeMismatch"),
    "multiply_two_fix_fix": _o(["C10", "C07"], "proof", ["multiply_two"], "for all (isize,isize): exact a*b, canonical", tier="quick"),
    "add_primitive_binary_fix": _o(["C10"], "proof", ["add_primitive", "add_primitive_no_check"], "(+ a b) exact for all fixnums"),
    "variadic_identities_and_type_errors": _o(["C10", "C07"], "proof", ["add_primitive", "multiply_primitive", "subtract_primitive", "divide_primitive", "ensure_args_are_numbers", "numberp"], "(+)=0 (*)=1 (+ a)=a (* a)=a; any non-number argument -> TypeMismatch error value"),
    "abs_fix": _o(["C10", "C07"], "proof", ["abs"], "for all isize: exact |a| (bignum for MIN), no overflow panic"),
    "add_fix_big": _o(["C10"], "proof", ["add_two", "negate", "abs"], "fixnum+bignum, -bignum, |bignum| exact for |bignum| < 2^100 (exact i128 model of num-bigint)"),
    "add_big_big": _o(["C10"], "proof", ["add_two"], "bignum+bignum exact within the model domain"),
    "bigint_into_steelval_canonical": _o(["C10", "C20"], "proof", ["impl IntoSteelVal for BigInt"], "for all i128: IntV iff fits isize else BigNum, value preserved"),
    "rational32_into_steelval_canonical": _o(["C10", "C20"], "proof", ["impl IntoSteelVal for Rational32"], "denominator 1 => exact integer, else stays Rational with same parts"),
    "mixed_add_follows_ieee": _o(["C10"], "proof", ["add_two", "add_two_fallible", "negate"], "fixnum+flonum == IEEE (i as f64) + f bit-for-bit, for all (isize,f64)", tier="thorough"),
    "parity_and_bits": _o(["C10", "C07"], "proof", ["even", "odd", "bitwise_not", "zerop", "positivep", "negativep"], "parity / sign predicates exact on all fixnums; Void -> TypeMismatch"),
    "bitwise_binary": _o(["C07"], "proof", ["bitwise_and", "bitwise_ior", "bitwise_xor"], "bit operations on all fixnum pairs"),
    "arithmetic_shift_in_range": _o(["C10", "C07"], "proof", ["arithmetic_shift"], "|m|<64 and result fits: n*2^m / floor(n/2^-m) exactly"),
    "arithmetic_shift_out_of_range": _o(["C10", "C07"], "proof", ["arithmetic_shift"], "any shift count: exact bignum or error value, never a panic or a wrapped fixnum"),
    "divide_by_exact_zero_is_error": _o(["C10", "C07"], "proof", ["divide_primitive"], "(/ a 0) and (/ 0) are Generic errors for all a"),
    "divide_inexact_is_ieee_quotient": _o(["C10"], "proof", ["divide_primitive"], "(/ x y) on flonums is the IEEE quotient x / y bit-for-bit", known=True),
    "int_float_equality_is_exact": _o(["C10"], "proof", ["number_equality", "integer_float_equality"], "(= i f) <=> f finite, integral and exactly i, for all (isize, f64 with |f|<1e30 or non-finite)"),
    "int_float_ordering_exact_small": _o(["C10"], "proof", ["PartialOrd for SteelVal (IntV,NumV)/(NumV,IntV)"], "|i| <= 2^53: partial_cmp agrees with the exact comparison"),
    "int_float_ordering_exact_large": _o(["C10"], "proof", ["PartialOrd for SteelVal (IntV,NumV)/(NumV,IntV)"], "|i| > 2^53: partial_cmp agrees with the exact comparison", known=True),
    "exact_ordering_fix_big": _o(["C10"], "proof", ["PartialOrd for SteelVal", "number_equality"], "fixnum/bignum ordering and equality agree with the exact values (model domain)"),
    "total_euclidean_quotient": None,
}
for d in DIVS:
    OBS[f"{d}_table"] = _o(["C10"], "bounded", [d], "exact quotient/remainder with the R7RS sign rules incl. MIN/-1 -> bignum", bound=TABLE_BOUND)
    OBS[f"{d}_zero"] = _o(["C10", "C07"], "proof", [d], "zero divisor (exact 0 or 0.0) => Generic error value, for every fixnum / bignum dividend")
for d in ["truncate_quotient", "truncate_remainder", "floor_quotient", "floor_remainder", "modulo", "euclidean_quotient", "euclidean_remainder"]:
    OBS[f"{d}_fix_big"] = _o(["C10"], "proof", [d], "fixnum (op) bignum, every fixnum and every bignum with |b| < 2^100: exact result with the R7RS sign rule")
OBS["ordering_fix_rational_table"] = _o(["C10"], "bounded", ["PartialOrd for SteelVal (IntV,Rational)/(Rational,IntV)"], "fixnum vs small rational ordering agrees with the exact comparison i*d <=> n", bound="fixnum from a 7-value boundary table x 6 rationals")
for d in ["truncate_slash", "floor_slash", "euclidean_slash"]:
    OBS[f"{d}_table"] = _o(["C10"], "bounded", [d], "pair (quotient remainder) exact", bound=TABLE_BOUND, tier="thorough")
    OBS[f"{d}_zero"] = _o(["C10", "C07"], "proof", [d], "zero divisor => error value for every dividend")
for d in ["truncate_quotient", "truncate_remainder", "floor_quotient", "floor_remainder", "euclidean_quotient", "euclidean_remainder",
          "truncate_slash", "floor_slash", "euclidean_slash"]:
    OBS[f"total_{d}"] = _o(["C07"], "proof", [d], "returns Ok/Err, never panics, for operands of every scalar kind (fixnum, flonum, bignum, bool, char, void) and every magnitude")
INTS = ["u8", "i8", "i16", "u16", "i32", "u32", "i64", "u64", "usize", "isize"]
for t in INTS:
    OBS[f"from_steelval_{t}"] = _o(["C20"], "proof", [f"impl FromSteelVal for {t}"], f"IntV(v) -> Ok(v) iff v in {t}'s range, else ConversionError; non-integers are errors")
    OBS[f"into_steelval_{t}"] = _o(["C20"], "proof", [f"impl IntoSteelVal for {t}", f"impl From<{t}> for SteelVal"], "the script sees exactly v (fixnum if it fits, bignum otherwise)")
for t in ["u8", "i16", "i32", "u32", "i64", "u64", "isize"]:
    OBS[f"roundtrip_{t}"] = _o(["C20"], "proof", [f"FromSteelVal/IntoSteelVal for {t}"], "from_steelval(into_steelval(v)) == Ok(v)")
OBS["into_steelval_u128"] = _o(["C20"], "proof", ["impl IntoSteelVal for u128"], "value preserved (v < 2^100)")
OBS["complex_imaginary_sign_classification"] = _o(["C12"], "proof", ["SteelComplex::imaginary_is_finite", "SteelComplex::imaginary_is_negative"], "for every f64 / fixnum imaginary part: finite <=> is_finite (NaN and infinities are not), negative <=> sign bit; the writer relies on this to print `a+bi` only when that is readable syntax")
OBS["big_to_small_int_conversions"] = _o(["C20"], "proof", ["FromSteelVal for u8/i8/i64 (BigNum arm)"], "a bignum never converts to a narrower integer")
OBS["float_char_bool_unit_conversions"] = _o(["C20"], "proof", ["from_f64!", "try_from_impl!(NumV)", "char/bool/()/Option impls"], "f64/f32/char/bool/()/Option round trip; mistyped values are ConversionErrors")
OBS["exact_integer_sqrt_delegates"] = _o(["C10"], "bounded", ["exact_integer_sqrt"], "for a non-negative fixnum the primitive takes root and remainder from exact_integer_impl (the exact integer routine is consulted exactly once, on x itself) and returns the list (root remainder) of two fixnums", bound="3 concrete operands (17, 67108865^2, 3037000499^2+7)")
OBS["exact_integer_impl_contract"] = _o(["C10"], "bounded", ["exact_integer_impl"], "exact_integer_impl(x) = (s, r): s is the integer square root delivered by the exact integer routine (num_integer::Roots::sqrt, assumed dependency contract), taken of x itself, exactly once, and r = x - s*s; both canonical fixnums", bound="x = s*s + d with s from a 10-value table (0-3, 2^16, 2^26+1, 94906266, 2^31-1, 2^31, 3037000499) and EVERY d in 0..=2s")
OBS["exact_integer_sqrt_rejects_negative"] = _o(["C10", "C07"], "proof", ["exact_integer_sqrt"], "negative fixnums and flonums are TypeMismatch error values")
OBS["ord_variadic_compares_adjacent_pairs"] = _o(["C10", "C01"], "proof", ["ord_internal", "ensure_real", "greater_than", "greater_than_equal", "less_than", "less_than_equal"], "(< a b c) <=> a<b and b<c (likewise > <= >=) for all fixnum triples - every ADJACENT pair is compared; a non-real operand before the first failing pair is a TypeMismatch; no argument is an ArityMismatch")
OBS = {k: v for k, v in OBS.items() if v}

CANARY = dict(name="canary_must_fail", kind="canary", contract="assert that must fail behind the unit's preconditions")


def run_for(scratch, tier, prop):
    crate, meta = build(scratch)
    # canary
    p = os.path.join(crate, "src/harness_numbers.rs")
    write(p, read(p) + """
#[kani::proof]
fn canary_must_fail() {
    let a: isize = kani::any();
    assert!(!is_int(&add_two(&IntV(a), &IntV(1)), a as i128 + 1), "canary: must be reported as failing");
}
""")
    specs = []
    for name, o in OBS.items():
        if prop not in o["props"]:
            continue
        if o["tier"] == "thorough" and tier != "thorough":
            continue
        specs.append(dict(name=name, kind=o["kind"], contract=o["contract"], functions=o["functions"], bound=o["bound"]))
    specs.append(CANARY)
    obs, cmd, out = kani.run_harnesses(crate, specs, NAME, "num", jobs=12, timeout=3000,
                                       harness_timeout="20m" if tier == "thorough" else "10m",
                                       extra_flags=["--no-overflow-checks", "--no-assertion-reach-checks"])
    kani.attach_counterexamples(obs, crate, "num", out)
    meta["note"] = "CBMC-level --no-overflow-checks: Rust's own overflow/div/shift panics are MIR assertions and ARE checked; what is off are CBMC's NaN / float-overflow / pointer-overflow instrumentation"
    return obs, meta, cmd
