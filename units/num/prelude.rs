// Environment prelude of unit `num` (engine E2). HAND-WRITTEN AND TRUSTED: it declares the types
// the verbatim-extracted items mention. What is restated here (and therefore NOT verified):
//   * SteelVal reduced to the variants the numeric kernels mention (same names, same payloads)
//   * Gc<T> as a plain owning pointer
//   * BigInt as an EXACT 128-bit model: every operator panics ("bigint model overflow") if the
//     i128 result would overflow, so inside the explored domain it is integer arithmetic.
//     This is an assumed contract on num-bigint, not a proof about it.
//   * BigRational = num_rational::Ratio<BigInt> (the real generic Ratio code over the model)
//   * Rational32  = the real num_rational::Ratio<i32>
//   * stop!/steelerr!/throw! keep the ErrorKind and DISCARD the message (unevaluated)
//   * BigDecimal: opaque stub (arms that use it are outside this unit)
#![allow(dead_code, unused_imports, unused_macros, non_snake_case, unused_variables)]

pub use core::cmp::Ordering;
pub use core::ops::{BitAnd, BitOr, BitXor, Neg};
pub use num_integer::{self, Integer, Roots};
pub use num_rational::{self, Ratio, Rational32};
pub use num_traits::{self, pow::Pow, CheckedAdd, CheckedMul, CheckedSub, Euclid, FromPrimitive, One, Signed, ToPrimitive, Zero};

// ---------------------------------------------------------------- errors
#[derive(Clone, Copy, Debug, PartialEq, Eq)]
pub enum ErrorKind {
    ArityMismatch,
    FreeIdentifier,
    TypeMismatch,
    UnexpectedToken,
    ContractViolation,
    BadSyntax,
    ConversionError,
    Io,
    Parse,
    Infallible,
    Generic,
}

#[derive(Clone, Copy, Debug, PartialEq, Eq)]
pub struct SteelErr {
    pub kind: ErrorKind,
}

impl SteelErr {
    pub fn new<M>(kind: ErrorKind, _message: M) -> Self {
        SteelErr { kind }
    }
    pub fn kind(&self) -> ErrorKind {
        self.kind
    }
}

/// message placeholder: the real code passes a String built with format!; the prelude macros
/// never evaluate the format arguments.
pub struct Msg;

pub type Result<T> = core::result::Result<T, SteelErr>;

macro_rules! steelerr {
    ($type:ident => $($rest:tt)+) => {
        Err($crate::prelude::SteelErr { kind: $crate::prelude::ErrorKind::$type })
    };
}
macro_rules! stop {
    ($type:ident => $($rest:tt)+) => {
        return Err($crate::prelude::SteelErr { kind: $crate::prelude::ErrorKind::$type })
    };
}
macro_rules! throw {
    ($type:ident => $($rest:tt)+) => {
        || $crate::prelude::SteelErr { kind: $crate::prelude::ErrorKind::$type }
    };
}
/// `format!` is only used to build error messages in the extracted items
macro_rules! format {
    ($($rest:tt)*) => {
        $crate::prelude::Msg
    };
}
pub(crate) use {format, steelerr, stop, throw};

pub mod result {
    pub use core::result::Result;
}

// ---------------------------------------------------------------- Gc
#[derive(Debug, PartialEq, PartialOrd, Eq, Hash)]
pub struct Gc<T> {
    // never freed: keeps the (recursive) drop glue of SteelVal out of the verification problem
    inner: core::mem::ManuallyDrop<Box<T>>,
}

impl<T> Gc<T> {
    pub fn new(v: T) -> Self {
        Gc { inner: core::mem::ManuallyDrop::new(Box::new(v)) }
    }
}
impl<T: Clone> Gc<T> {
    pub fn unwrap(&self) -> T {
        (**self.inner).clone()
    }
}
impl<T: Clone> Clone for Gc<T> {
    fn clone(&self) -> Self {
        Gc { inner: core::mem::ManuallyDrop::new(Box::new((**self.inner).clone())) }
    }
}
impl<T> AsRef<T> for Gc<T> {
    fn as_ref(&self) -> &T {
        &self.inner
    }
}
impl<T> core::ops::Deref for Gc<T> {
    type Target = T;
    fn deref(&self) -> &T {
        &self.inner
    }
}

pub mod gc {
    pub use super::Gc;
}

// ---------------------------------------------------------------- BigInt (exact i128 model)
#[derive(Clone, Copy, Debug, PartialEq, Eq, PartialOrd, Ord, Hash)]
pub struct BigInt(pub i128);

#[inline(never)]
fn ovf() -> ! {
    panic!("bigint model overflow: operand outside the modelled 128-bit domain")
}

impl BigInt {
    #[inline]
    fn ck(v: Option<i128>) -> BigInt {
        match v {
            Some(x) => BigInt(x),
            None => ovf(),
        }
    }
}

macro_rules! bigint_from {
    ($($t:ty),*) => {$(
        impl From<$t> for BigInt { #[inline] fn from(v: $t) -> Self { BigInt(v as i128) } }
    )*};
}
bigint_from!(i8, i16, i32, i64, isize, u8, u16, u32, u64, usize, i128);
impl From<u128> for BigInt {
    fn from(v: u128) -> Self {
        if v > i128::MAX as u128 {
            ovf()
        }
        BigInt(v as i128)
    }
}

macro_rules! bigint_tryfrom {
    ($($t:ty),*) => {$(
        impl TryFrom<&BigInt> for $t {
            type Error = ();
            #[inline] fn try_from(v: &BigInt) -> core::result::Result<$t, ()> { <$t>::try_from(v.0).map_err(|_| ()) }
        }
        impl TryFrom<BigInt> for $t {
            type Error = ();
            #[inline] fn try_from(v: BigInt) -> core::result::Result<$t, ()> { <$t>::try_from(v.0).map_err(|_| ()) }
        }
    )*};
}
bigint_tryfrom!(i8, i16, i32, i64, isize, u8, u16, u32, u64, usize, u128, i128);

pub trait ToBigInt {
    fn to_bigint(&self) -> Option<BigInt>;
}
macro_rules! to_bigint {
    ($($t:ty),*) => {$(
        impl ToBigInt for $t { #[inline] fn to_bigint(&self) -> Option<BigInt> { Some(BigInt(*self as i128)) } }
    )*};
}
to_bigint!(i8, i16, i32, i64, isize, u8, u16, u32, u64, usize);

// binary operators: BigInt op BigInt in every by-value / by-reference combination
macro_rules! bigint_binop {
    ($tr:ident, $m:ident, $ck:ident) => {
        impl core::ops::$tr<BigInt> for BigInt { type Output = BigInt; #[inline] fn $m(self, r: BigInt) -> BigInt { BigInt::ck(self.0.$ck(r.0)) } }
        impl<'a> core::ops::$tr<&'a BigInt> for BigInt { type Output = BigInt; #[inline] fn $m(self, r: &BigInt) -> BigInt { BigInt::ck(self.0.$ck(r.0)) } }
        impl<'a> core::ops::$tr<BigInt> for &'a BigInt { type Output = BigInt; #[inline] fn $m(self, r: BigInt) -> BigInt { BigInt::ck(self.0.$ck(r.0)) } }
        impl<'a, 'b> core::ops::$tr<&'b BigInt> for &'a BigInt { type Output = BigInt; #[inline] fn $m(self, r: &BigInt) -> BigInt { BigInt::ck(self.0.$ck(r.0)) } }
    };
}
bigint_binop!(Add, add, checked_add);
bigint_binop!(Sub, sub, checked_sub);
bigint_binop!(Mul, mul, checked_mul);
bigint_binop!(Div, div, checked_div);
bigint_binop!(Rem, rem, checked_rem);

// BigInt op primitive and primitive op BigInt (by value and by reference)
macro_rules! bigint_primop {
    ($tr:ident, $m:ident, $ck:ident; $($t:ty),*) => {$(
        impl core::ops::$tr<$t> for BigInt { type Output = BigInt; #[inline] fn $m(self, r: $t) -> BigInt { BigInt::ck(self.0.$ck(r as i128)) } }
        impl<'a> core::ops::$tr<&'a $t> for BigInt { type Output = BigInt; #[inline] fn $m(self, r: &$t) -> BigInt { BigInt::ck(self.0.$ck(*r as i128)) } }
        impl<'a> core::ops::$tr<$t> for &'a BigInt { type Output = BigInt; #[inline] fn $m(self, r: $t) -> BigInt { BigInt::ck(self.0.$ck(r as i128)) } }
        impl<'a, 'b> core::ops::$tr<&'b $t> for &'a BigInt { type Output = BigInt; #[inline] fn $m(self, r: &$t) -> BigInt { BigInt::ck(self.0.$ck(*r as i128)) } }
        impl core::ops::$tr<BigInt> for $t { type Output = BigInt; #[inline] fn $m(self, r: BigInt) -> BigInt { BigInt::ck((self as i128).$ck(r.0)) } }
        impl<'a> core::ops::$tr<&'a BigInt> for $t { type Output = BigInt; #[inline] fn $m(self, r: &BigInt) -> BigInt { BigInt::ck((self as i128).$ck(r.0)) } }
        impl<'a> core::ops::$tr<BigInt> for &'a $t { type Output = BigInt; #[inline] fn $m(self, r: BigInt) -> BigInt { BigInt::ck((*self as i128).$ck(r.0)) } }
        impl<'a, 'b> core::ops::$tr<&'b BigInt> for &'a $t { type Output = BigInt; #[inline] fn $m(self, r: &BigInt) -> BigInt { BigInt::ck((*self as i128).$ck(r.0)) } }
    )*};
}
bigint_primop!(Add, add, checked_add; isize, i32, i64, usize);
bigint_primop!(Sub, sub, checked_sub; isize, i32, i64, usize);
bigint_primop!(Mul, mul, checked_mul; isize, i32, i64, usize);
bigint_primop!(Div, div, checked_div; isize, i32, i64, usize);
bigint_primop!(Rem, rem, checked_rem; isize, i32, i64, usize);

macro_rules! bigint_assign {
    ($tr:ident, $m:ident, $ck:ident) => {
        impl core::ops::$tr<BigInt> for BigInt { #[inline] fn $m(&mut self, r: BigInt) { *self = BigInt::ck(self.0.$ck(r.0)); } }
        impl<'a> core::ops::$tr<&'a BigInt> for BigInt { #[inline] fn $m(&mut self, r: &BigInt) { *self = BigInt::ck(self.0.$ck(r.0)); } }
        impl core::ops::$tr<isize> for BigInt { #[inline] fn $m(&mut self, r: isize) { *self = BigInt::ck(self.0.$ck(r as i128)); } }
        impl core::ops::$tr<i32> for BigInt { #[inline] fn $m(&mut self, r: i32) { *self = BigInt::ck(self.0.$ck(r as i128)); } }
    };
}
bigint_assign!(AddAssign, add_assign, checked_add);
bigint_assign!(SubAssign, sub_assign, checked_sub);
bigint_assign!(MulAssign, mul_assign, checked_mul);
bigint_assign!(DivAssign, div_assign, checked_div);
bigint_assign!(RemAssign, rem_assign, checked_rem);

macro_rules! bigint_shl {
    ($($t:ty),*) => {$(
        impl core::ops::Shl<$t> for BigInt { type Output = BigInt; fn shl(self, s: $t) -> BigInt {
            if (s as u128) >= 126 { if self.0 == 0 { return self } ovf() }
            let r = self.0 << (s as u32);
            if (r >> (s as u32)) != self.0 { ovf() }
            BigInt(r)
        } }
    )*};
}
bigint_shl!(usize, u32, u64, i32, isize);
impl Neg for BigInt { type Output = BigInt; #[inline] fn neg(self) -> BigInt { BigInt::ck(self.0.checked_neg()) } }
impl<'a> Neg for &'a BigInt { type Output = BigInt; #[inline] fn neg(self) -> BigInt { BigInt::ck(self.0.checked_neg()) } }
impl core::ops::Not for BigInt { type Output = BigInt; #[inline] fn not(self) -> BigInt { BigInt(!self.0) } }
impl<'a> core::ops::Not for &'a BigInt { type Output = BigInt; #[inline] fn not(self) -> BigInt { BigInt(!self.0) } }

impl Zero for BigInt {
    #[inline] fn zero() -> Self { BigInt(0) }
    #[inline] fn is_zero(&self) -> bool { self.0 == 0 }
}
impl One for BigInt {
    #[inline] fn one() -> Self { BigInt(1) }
}
impl num_traits::Num for BigInt {
    type FromStrRadixErr = ();
    fn from_str_radix(_s: &str, _r: u32) -> core::result::Result<Self, ()> { Err(()) }
}
impl Signed for BigInt {
    #[inline] fn abs(&self) -> Self { BigInt::ck(self.0.checked_abs()) }
    #[inline] fn abs_sub(&self, other: &Self) -> Self { if self.0 <= other.0 { BigInt(0) } else { BigInt::ck(self.0.checked_sub(other.0)) } }
    #[inline] fn signum(&self) -> Self { BigInt(self.0.signum()) }
    #[inline] fn is_positive(&self) -> bool { self.0 > 0 }
    #[inline] fn is_negative(&self) -> bool { self.0 < 0 }
}
impl Integer for BigInt {
    #[inline] fn div_floor(&self, o: &Self) -> Self { if self.0 == i128::MIN && o.0 == -1 { ovf() } BigInt(Integer::div_floor(&self.0, &o.0)) }
    #[inline] fn mod_floor(&self, o: &Self) -> Self { if self.0 == i128::MIN && o.0 == -1 { return BigInt(0) } BigInt(Integer::mod_floor(&self.0, &o.0)) }
    #[inline] fn gcd(&self, o: &Self) -> Self { BigInt(Integer::gcd(&self.0, &o.0)) }
    #[inline] fn lcm(&self, o: &Self) -> Self { BigInt(Integer::lcm(&self.0, &o.0)) }
    #[inline] fn is_multiple_of(&self, o: &Self) -> bool { Integer::is_multiple_of(&self.0, &o.0) }
    #[inline] fn is_even(&self) -> bool { self.0 & 1 == 0 }
    #[inline] fn is_odd(&self) -> bool { self.0 & 1 == 1 }
    #[inline] fn div_rem(&self, o: &Self) -> (Self, Self) { (BigInt::ck(self.0.checked_div(o.0)), BigInt::ck(self.0.checked_rem(o.0))) }
}
impl Roots for BigInt {
    fn nth_root(&self, n: u32) -> Self { BigInt(Roots::nth_root(&self.0, n)) }
    fn sqrt(&self) -> Self { BigInt(Roots::sqrt(&self.0)) }
}
impl Euclid for BigInt {
    #[inline] fn div_euclid(&self, v: &Self) -> Self { BigInt::ck(self.0.checked_div_euclid(v.0)) }
    #[inline] fn rem_euclid(&self, v: &Self) -> Self { BigInt::ck(self.0.checked_rem_euclid(v.0)) }
}
impl ToPrimitive for BigInt {
    #[inline] fn to_i64(&self) -> Option<i64> { i64::try_from(self.0).ok() }
    #[inline] fn to_u64(&self) -> Option<u64> { u64::try_from(self.0).ok() }
    #[inline] fn to_isize(&self) -> Option<isize> { isize::try_from(self.0).ok() }
    #[inline] fn to_i32(&self) -> Option<i32> { i32::try_from(self.0).ok() }
    #[inline] fn to_i128(&self) -> Option<i128> { Some(self.0) }
    #[inline] fn to_f64(&self) -> Option<f64> { Some(self.0 as f64) }
}
impl FromPrimitive for BigInt {
    #[inline] fn from_i64(n: i64) -> Option<Self> { Some(BigInt(n as i128)) }
    #[inline] fn from_u64(n: u64) -> Option<Self> { Some(BigInt(n as i128)) }
    #[inline] fn from_f64(n: f64) -> Option<Self> {
        if n.is_finite() && n.abs() < 1.0e38 { Some(BigInt(n as i128)) } else { None }
    }
}
impl CheckedAdd for BigInt { #[inline] fn checked_add(&self, v: &Self) -> Option<Self> { Some(BigInt::ck(self.0.checked_add(v.0))) } }
impl CheckedSub for BigInt { #[inline] fn checked_sub(&self, v: &Self) -> Option<Self> { Some(BigInt::ck(self.0.checked_sub(v.0))) } }
impl CheckedMul for BigInt { #[inline] fn checked_mul(&self, v: &Self) -> Option<Self> { Some(BigInt::ck(self.0.checked_mul(v.0))) } }
impl num_traits::CheckedDiv for BigInt { #[inline] fn checked_div(&self, v: &Self) -> Option<Self> { if v.0 == 0 { None } else { Some(BigInt::ck(self.0.checked_div(v.0))) } } }
macro_rules! bigint_pow {
    ($($t:ty),*) => {$(
        impl Pow<$t> for BigInt { type Output = BigInt; fn pow(self, e: $t) -> BigInt { match u32::try_from(e) { Ok(e) => BigInt::ck(self.0.checked_pow(e)), Err(_) => ovf() } } }
        impl<'a> Pow<$t> for &'a BigInt { type Output = BigInt; fn pow(self, e: $t) -> BigInt { match u32::try_from(e) { Ok(e) => BigInt::ck(self.0.checked_pow(e)), Err(_) => ovf() } } }
    )*};
}
bigint_pow!(u32, usize, u64);
impl core::fmt::Display for BigInt {
    fn fmt(&self, f: &mut core::fmt::Formatter<'_>) -> core::fmt::Result { write!(f, "{}", self.0) }
}

pub type BigRational = Ratio<BigInt>;

/// num-rational implements ToPrimitive / from_float for Ratio<BigInt> only together with the real
/// num-bigint; the model supplies the two entry points the extracted code uses.
pub trait RatioModelExt: Sized {
    fn to_f64(&self) -> Option<f64>;
    fn from_float(f: f64) -> Option<Self>;
}
impl RatioModelExt for Ratio<BigInt> {
    fn to_f64(&self) -> Option<f64> {
        let f = (self.numer().0 as f64) / (self.denom().0 as f64);
        if f.is_nan() { None } else { Some(f) }
    }
    fn from_float(f: f64) -> Option<Self> {
        if !f.is_finite() {
            return None;
        }
        let bits = f.to_bits();
        let neg = (bits >> 63) != 0;
        let exp = ((bits >> 52) & 0x7ff) as i32;
        let frac = (bits & ((1u64 << 52) - 1)) as i128;
        let (m, e) = if exp == 0 { (frac, -1074) } else { (frac | (1i128 << 52), exp - 1075) };
        let m = if neg { -m } else { m };
        if e >= 0 {
            if e > 70 { ovf() }
            Some(Ratio::new(BigInt::ck(m.checked_mul(1i128 << e)), BigInt(1)))
        } else {
            if -e > 120 { ovf() }
            Some(Ratio::new(BigInt(m), BigInt(1i128 << (-e))))
        }
    }
}

// ---------------------------------------------------------------- BigDecimal stub (opaque)
#[derive(Clone, Debug, PartialEq, PartialOrd)]
pub struct BigDecimal;
impl BigDecimal {
    pub fn new(_digits: BigInt, _scale: i64) -> Self { unimplemented!("BigDecimal arms are outside unit num") }
    pub fn from_f64(_f: f64) -> Option<Self> { unimplemented!("BigDecimal arms are outside unit num") }
}
impl core::ops::Div for BigDecimal { type Output = BigDecimal; fn div(self, _o: BigDecimal) -> BigDecimal { unimplemented!() } }

// ---------------------------------------------------------------- values
#[derive(Clone, Debug, PartialEq)]
pub struct List<T>(pub core::mem::ManuallyDrop<Vec<T>>);
impl<T> From<Vec<T>> for List<T> {
    fn from(v: Vec<T>) -> Self { List(core::mem::ManuallyDrop::new(v)) }
}

#[derive(Clone, Debug)]
pub struct SteelString(pub String);
impl PartialEq for SteelString { fn eq(&self, o: &Self) -> bool { self.0 == o.0 } }
impl PartialOrd for SteelString { fn partial_cmp(&self, o: &Self) -> Option<Ordering> { self.0.partial_cmp(&o.0) } }

#[derive(Clone, Debug)]
pub enum SteelVal {
    BoolV(bool),
    NumV(f64),
    IntV(isize),
    Rational(Rational32),
    CharV(char),
    Void,
    StringV(SteelString),
    ListV(List<SteelVal>),
    BigNum(Gc<BigInt>),
    BigRational(Gc<BigRational>),
    Complex(Gc<SteelComplex>),
}
use SteelVal::*;
pub use crate::x_rvals::SteelComplex;

impl SteelVal {
    pub fn is_truthy(&self) -> bool {
        !matches!(self, SteelVal::BoolV(false))
    }
}

/// Structural equality sufficient for the harnesses (the real PartialEq for SteelVal is a
/// 36-arm function in rvals.rs and is not part of this unit, except `number_equality`).
impl PartialEq for SteelVal {
    fn eq(&self, other: &Self) -> bool {
        match (self, other) {
            (BoolV(a), BoolV(b)) => a == b,
            (NumV(a), NumV(b)) => a == b,
            (IntV(a), IntV(b)) => a == b,
            (Rational(a), Rational(b)) => a == b,
            (CharV(a), CharV(b)) => a == b,
            (Void, Void) => true,
            (StringV(a), StringV(b)) => a == b,
            (ListV(a), ListV(b)) => a == b,
            (BigNum(a), BigNum(b)) => a == b,
            (SteelVal::BigRational(a), SteelVal::BigRational(b)) => a == b,
            (Complex(a), Complex(b)) => a == b,
            _ => false,
        }
    }
}

pub trait IntoSteelVal: Sized {
    fn into_steelval(self) -> Result<SteelVal>;
}
pub trait FromSteelVal: Sized {
    fn from_steelval(val: &SteelVal) -> Result<Self>;
}

impl IntoSteelVal for SteelVal {
    #[inline]
    fn into_steelval(self) -> Result<SteelVal> { Ok(self) }
}
impl<T: IntoSteelVal> IntoSteelVal for Result<T> {
    #[inline]
    fn into_steelval(self) -> Result<SteelVal> { self?.into_steelval() }
}
pub mod rvals {
    pub use super::Result;
}
pub mod rerrs {
    pub use super::{ErrorKind, SteelErr};
}

// ---------------------------------------------------------------- dependency contract for exact-integer-sqrt
/// `num_integer::Roots::sqrt` as an ASSUMED CONTRACT (the real implementation mixes a floating-point guess
/// with a Newton iteration over 64-bit divisions; out of CBMC's reach): for x >= 0 it returns THE s with
/// s*s <= x < (s+1)*(s+1). Every call is logged.
pub mod isqrt_dep {
    pub static mut SQRT_CALLS: u32 = 0;
    pub static mut SQRT_RESULT: i128 = 0;
    pub trait Roots: ::num_integer::Integer {
        fn sqrt(&self) -> Self;
    }
    /// under Kani the harness announces the root of the operand it constructed (x = s*s + d, 0 <= d <= 2s, so
    /// s IS the integer square root of x); the ghost checks it is asked about exactly that operand
    pub static mut EXPECTED_X: isize = 0;
    pub static mut EXPECTED_S: isize = 0;
    #[cfg(kani)]
    fn floor_sqrt(x: isize) -> isize {
        assert!(x >= 0, "Roots::sqrt of a negative number panics");
        unsafe {
            assert!(x == EXPECTED_X, "the square root of another number is taken");
            SQRT_CALLS += 1;
            SQRT_RESULT = EXPECTED_S as i128;
            EXPECTED_S
        }
    }
    #[cfg(not(kani))]
    fn floor_sqrt(x: isize) -> isize {
        let mut s = (x as f64).sqrt() as isize;
        while s * s > x {
            s -= 1;
        }
        while (s + 1) * (s + 1) <= x {
            s += 1;
        }
        unsafe {
            SQRT_CALLS += 1;
            SQRT_RESULT = s as i128;
        }
        s
    }
    impl Roots for isize {
        fn sqrt(&self) -> Self {
            floor_sqrt(*self)
        }
    }
    impl Roots for super::BigInt {
        /// bignum roots are outside the model domain: reported, never silently wrong
        fn sqrt(&self) -> Self {
            panic!("isqrt_dep: bignum square roots are not modelled")
        }
    }
}
