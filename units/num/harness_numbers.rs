// Contract harnesses for items extracted from primitives/numbers.rs and primitives.rs
// (child module of x_numbers, so the file's private functions are visible; unit `num`, E2).
#![allow(unused_imports, dead_code)]
use super::*;
use crate::harness_common::*;
use crate::prelude::{BigInt, BigRational, ErrorKind, FromSteelVal, Gc, IntoSteelVal, Result, SteelVal};
use crate::prelude::SteelVal::{BigNum, BoolV, CharV, IntV, ListV, NumV, Rational, Void};
use num_rational::Rational32;

// ------------------------------------------------------------------ fixnum x fixnum, exact
#[kani::proof]
fn add_two_fix_fix() {
    let a: isize = kani::any();
    let b: isize = kani::any();
    let r = add_two(&IntV(a), &IntV(b));
    assert!(is_int(&r, a as i128 + b as i128));
    let r2 = add_two_fallible(&IntV(a), &IntV(b));
    assert!(is_int(&r2, a as i128 + b as i128));
    kani::cover!(matches!(r, Ok(BigNum(_))));
}

#[kani::proof]
fn negate_fix() {
    let a: isize = kani::any();
    assert!(is_int(&negate(&IntV(a)), -(a as i128)));
}



#[kani::proof]
fn multiply_two_fix_fix() {
    let a: isize = kani::any();
    let b: isize = kani::any();
    assert!(is_int(&multiply_two(&IntV(a), &IntV(b)), a as i128 * b as i128));
}



#[kani::proof]
fn abs_fix() {
    let a: isize = kani::any();
    let want = if a < 0 { -(a as i128) } else { a as i128 };
    assert!(is_int(&abs(&IntV(a)), want));
}

// ------------------------------------------------------------------ integer division family
// Spec: Rust's own `/` and `%` on isize are truncated division (trusted machine semantics);
// floor and euclidean results are derived from them by the textbook sign corrections; the one
// pair whose quotient does not fit (MIN / -1) must give the exact bignum 2^63.
fn spec_trunc(a: isize, b: isize) -> (i128, i128) {
    if a == isize::MIN && b == -1 {
        (-(IMIN), 0)
    } else {
        ((a / b) as i128, (a % b) as i128)
    }
}
fn spec_floor(a: isize, b: isize) -> (i128, i128) {
    let (q, r) = spec_trunc(a, b);
    if r != 0 && ((r < 0) != (b < 0)) {
        (q - 1, r + b as i128)
    } else {
        (q, r)
    }
}
fn spec_euclid(a: isize, b: isize) -> (i128, i128) {
    let (q, r) = spec_trunc(a, b);
    if r < 0 {
        if b > 0 {
            (q - 1, r + b as i128)
        } else {
            (q + 1, r - b as i128)
        }
    } else {
        (q, r)
    }
}
// the same three on the i128 model domain (fixnum x bignum harnesses)
fn div_trunc(a: i128, b: i128) -> (i128, i128) {
    (a / b, a % b)
}
fn div_floor_spec(a: i128, b: i128) -> (i128, i128) {
    let (q, r) = (a / b, a % b);
    if r != 0 && ((r < 0) != (b < 0)) {
        (q - 1, r + b)
    } else {
        (q, r)
    }
}
fn div_euclid_spec(a: i128, b: i128) -> (i128, i128) {
    let (q, r) = (a / b, a % b);
    if r < 0 {
        if b > 0 {
            (q - 1, r + b)
        } else {
            (q + 1, r - b)
        }
    } else {
        (q, r)
    }
}

fn pair_is(v: &Result<SteelVal>, q: i128, r: i128) -> bool {
    match two_list(v) {
        Some((x, y)) => int_of(&x) == Some(q) && int_of(&y) == Some(r),
        None => false,
    }
}

// CBMC encodes `/` and `%` through a multiplier constraint, and a proof that two 64-bit divisions
// agree does not finish (measured: > 5 min per function, every SAT back end; the SMT back end of
// CBMC 6.11 crashes on this program). The division family is therefore decided in two parts:
//   * zero divisor  => error value, for EVERY dividend (complete, loop-free)
//   * exact results => BOUNDED: all pairs from a 9-value boundary table (5-value for the pair-returning variants) (concrete operands,
//     CBMC evaluates both sides); the MIN / -1 pair is in the table.
const TABLE: [isize; 9] = [isize::MIN, -4294967297, -7, -1, 0, 2, 7, 4294967296, isize::MAX];
const TABLE2: [isize; 5] = [isize::MIN, -7, -1, 2, isize::MAX];

macro_rules! div_harness {
    ($name:ident, $zname:ident, $f:ident, $spec:ident, $sel:tt) => {
        #[kani::proof]
        #[kani::unwind(10)]
        fn $name() {
            for a in TABLE {
                for b in TABLE {
                    if b != 0 {
                        let s = $spec(a, b);
                        assert!(is_int(&$f(&[IntV(a), IntV(b)]), s.$sel));
                    }
                }
            }
        }
        #[kani::proof]
        fn $zname() {
            let a: isize = kani::any();
            assert!(is_err_kind(&$f(&[IntV(a), IntV(0)]), ErrorKind::Generic), "division by zero is an error value");
            assert!(is_err_kind(&$f(&[IntV(a), NumV(0.0)]), ErrorKind::Generic), "division by zero is an error value");
            let big = any_big();
            assert!(is_err_kind(&$f(&[big, IntV(0)]), ErrorKind::Generic), "division by zero is an error value");
        }
    };
}
div_harness!(truncate_quotient_table, truncate_quotient_zero, truncate_quotient, spec_trunc, 0);
div_harness!(truncate_remainder_table, truncate_remainder_zero, truncate_remainder, spec_trunc, 1);
div_harness!(quotient_table, quotient_zero, quotient, spec_trunc, 0);
div_harness!(remainder_table, remainder_zero, remainder, spec_trunc, 1);
div_harness!(floor_quotient_table, floor_quotient_zero, floor_quotient, spec_floor, 0);
div_harness!(floor_remainder_table, floor_remainder_zero, floor_remainder, spec_floor, 1);
div_harness!(modulo_table, modulo_zero, modulo, spec_floor, 1);
div_harness!(euclidean_quotient_table, euclidean_quotient_zero, euclidean_quotient, spec_euclid, 0);
div_harness!(euclidean_remainder_table, euclidean_remainder_zero, euclidean_remainder, spec_euclid, 1);

macro_rules! divpair_harness {
    ($name:ident, $zname:ident, $f:ident, $spec:ident) => {
        #[kani::proof]
        #[kani::unwind(10)]
        fn $name() {
            for a in TABLE2 {
                for b in TABLE2 {
                    if b != 0 {
                        let s = $spec(a, b);
                        assert!(pair_is(&$f(&[IntV(a), IntV(b)]), s.0, s.1));
                    }
                }
            }
        }
        #[kani::proof]
        fn $zname() {
            let a: isize = kani::any();
            assert!(is_err_kind(&$f(&[IntV(a), IntV(0)]), ErrorKind::Generic), "division by zero is an error value");
        }
    };
}
divpair_harness!(truncate_slash_table, truncate_slash_zero, truncate_slash, spec_trunc);
divpair_harness!(floor_slash_table, floor_slash_zero, floor_slash, spec_floor);
divpair_harness!(euclidean_slash_table, euclidean_slash_zero, euclidean_slash, spec_euclid);



macro_rules! fix_big_harness {
    ($name:ident, $f:ident, $spec:ident, $sel:tt) => {
        // |fixnum| < |bignum| always: the quotient is 0 or -1 and the remainder follows the sign rule
        #[kani::proof]
        fn $name() {
            let a: isize = kani::any();
            let b = any_big();
            let s = $spec(a as i128, big_val(&b));
            assert!(is_int(&$f(&[IntV(a), b]), s.$sel));
        }
    };
}
fix_big_harness!(truncate_quotient_fix_big, truncate_quotient, div_trunc, 0);
fix_big_harness!(truncate_remainder_fix_big, truncate_remainder, div_trunc, 1);
fix_big_harness!(floor_quotient_fix_big, floor_quotient, div_floor_spec, 0);
fix_big_harness!(floor_remainder_fix_big, floor_remainder, div_floor_spec, 1);
fix_big_harness!(modulo_fix_big, modulo, div_floor_spec, 1);
fix_big_harness!(euclidean_quotient_fix_big, euclidean_quotient, div_euclid_spec, 0);
fix_big_harness!(euclidean_remainder_fix_big, euclidean_remainder, div_euclid_spec, 1);

// ------------------------------------------------------------------ canonicalisation
#[kani::proof]
fn bigint_into_steelval_canonical() {
    let v: i128 = kani::any();
    let r = BigInt(v).into_steelval();
    assert!(is_int(&r, v));
    match r {
        Ok(IntV(_)) => assert!(fits(v)),
        Ok(BigNum(_)) => assert!(!fits(v)),
        _ => assert!(false),
    }
}

#[kani::proof]
fn rational32_into_steelval_canonical() {
    // Ratio invariant (established by Ratio::new): denom > 0, reduced. An integral ratio has denom 1.
    let n: i32 = kani::any();
    let d: i32 = kani::any();
    kani::assume(d >= 1);
    let r = Rational32::new_raw(n, d).into_steelval();
    if d == 1 {
        assert!(is_int(&r, n as i128));
    } else {
        match r {
            Ok(Rational(q)) => assert!(*q.numer() == n && *q.denom() == d),
            _ => assert!(false, "a non-integral rational stays a rational"),
        }
    }
}



// ------------------------------------------------------------------ small integer predicates
#[kani::proof]
fn parity_and_bits() {
    let a: isize = kani::any();
    let b: isize = kani::any();
    assert!(even(&IntV(a)) == Ok(BoolV((a as i128).rem_euclid(2) == 0)));
    assert!(odd(&IntV(a)) == Ok(BoolV((a as i128).rem_euclid(2) == 1)));
    assert!(is_err_kind(&even(&Void), ErrorKind::TypeMismatch));
    assert!(bitwise_not(&[IntV(a)]) == Ok(IntV(!a)));
    assert!(zerop(&IntV(a)) == Ok(BoolV(a == 0)));
    assert!(positivep(&IntV(a)) == Ok(BoolV(a > 0)));
    assert!(negativep(&IntV(a)) == Ok(BoolV(a < 0)));
    let _ = b;
}

#[kani::proof]
#[kani::unwind(4)]
fn bitwise_binary() {
    let a: isize = kani::any();
    let b: isize = kani::any();
    assert!(bitwise_and(&[IntV(a), IntV(b)]) == Ok(IntV(a & b)));
    assert!(bitwise_ior(&[IntV(a), IntV(b)]) == Ok(IntV(a | b)));
    assert!(bitwise_xor(&[IntV(a), IntV(b)]) == Ok(IntV(a ^ b)));
}

/// arithmetic-shift: exact n * 2^m (left) / floor(n / 2^-m) (right) or an error, never a wrapped value
#[kani::proof]
fn arithmetic_shift_in_range() {
    let n: isize = kani::any();
    let m: isize = kani::any();
    kani::assume(m > -64 && m < 64);
    let r = arithmetic_shift(&[IntV(n), IntV(m)]);
    if m >= 0 {
        let want = (n as i128) << m;
        kani::assume(fits(want));
        assert!(is_int(&r, want));
    } else {
        assert!(is_int(&r, (n as i128) >> (-m)));
    }
}

/// (b)-half of known finding: shift counts >= 64 / results that need more than 63 bits
#[kani::proof]
fn arithmetic_shift_out_of_range() {
    let n: isize = kani::any();
    let m: isize = kani::any();
    kani::assume(m < 60 || n == 0); // larger left shifts of non-zero values leave the 128-bit model
    let r = arithmetic_shift(&[IntV(n), IntV(m)]);
    if m < 0 {
        let s = if m <= -64 { 63 } else { -m };
        assert!(is_int(&r, (n as i128) >> s));
    }
    if m >= 0 && m < 64 {
        let want = (n as i128) << m;
        if fits(want) {
            assert!(is_int(&r, want));
        } else {
            // exact bignum or an error value; a wrapped fixnum is wrong
            assert!(r.is_err() || is_int(&r, want));
        }
    }
}

// ------------------------------------------------------------------ panic freedom on every kind (C07)
fn any_scalar() -> SteelVal {
    let k: u8 = kani::any();
    match k % 7 {
        0 => IntV(kani::any()),
        1 => NumV(kani::any()),
        2 => any_big(),
        3 => BoolV(kani::any()),
        4 => CharV(kani::any()),
        5 => Void,
        _ => IntV(0),
    }
}

macro_rules! total2 {
    ($name:ident, $f:ident) => {
        /// C07: returns Ok or Err for operands of every scalar kind and magnitude, never panics
        #[kani::proof]
        #[kani::unwind(4)]
        fn $name() {
            let x = any_scalar();
            let y = any_scalar();
            let _ = $f(&[x, y]);
        }
    };
}
total2!(total_truncate_quotient, truncate_quotient);
total2!(total_truncate_remainder, truncate_remainder);
total2!(total_floor_quotient, floor_quotient);
total2!(total_floor_remainder, floor_remainder);
total2!(total_euclidean_quotient, euclidean_quotient);
total2!(total_euclidean_remainder, euclidean_remainder);
total2!(total_truncate_slash, truncate_slash);
total2!(total_floor_slash, floor_slash);
total2!(total_euclidean_slash, euclidean_slash);





// Mixed exact/inexact: the fixnum is converted (i as f64) and the IEEE operation applied.
// IEEE + and * are commutative, so the operand order of the spec follows the code's.
#[kani::proof]
fn mixed_add_follows_ieee() {
    let i: isize = kani::any();
    let f: f64 = kani::any();
    assert!(is_num(&add_two(&IntV(i), &NumV(f)), f + i as f64));
    assert!(is_num(&add_two(&NumV(f), &IntV(i)), f + i as f64));
    assert!(is_num(&add_two_fallible(&IntV(i), &NumV(f)), f + i as f64));
    assert!(is_num(&add_two_fallible(&NumV(f), &IntV(i)), f + i as f64));
    let g: f64 = kani::any();
    assert!(is_num(&add_two(&NumV(f), &NumV(g)), f + g));
    assert!(is_num(&negate(&NumV(f)), -f));
}







// ------------------------------------------------------------------ cheaper variants
#[kani::proof]
#[kani::unwind(3)]
fn subtract_unary_fix() {
    let a: isize = kani::any();
    assert!(is_int(&subtract_primitive(&[IntV(a)]), -(a as i128)));
    assert!(is_err_kind(&subtract_primitive(&[]), ErrorKind::ArityMismatch));
    assert!(is_err_kind(&subtract_primitive(&[Void]), ErrorKind::TypeMismatch));
}

#[kani::proof]
#[kani::unwind(4)]
fn variadic_identities_and_type_errors() {
    let a: isize = kani::any();
    assert!(is_int(&add_primitive(&[]), 0));
    assert!(is_int(&add_primitive(&[IntV(a)]), a as i128));
    assert!(is_int(&multiply_primitive(&[]), 1));
    assert!(is_int(&multiply_primitive(&[IntV(a)]), a as i128));
    // a non-number anywhere is a type error, never a panic
    assert!(is_err_kind(&add_primitive(&[IntV(a), Void]), ErrorKind::TypeMismatch));
    assert!(is_err_kind(&multiply_primitive(&[BoolV(true), IntV(a)]), ErrorKind::TypeMismatch));
    assert!(is_err_kind(&subtract_primitive(&[IntV(a), CharV('x')]), ErrorKind::TypeMismatch));
    assert!(is_err_kind(&divide_primitive(&[IntV(a), Void]), ErrorKind::TypeMismatch));
    assert!(is_err_kind(&divide_primitive(&[]), ErrorKind::ArityMismatch));
}

#[kani::proof]
#[kani::unwind(3)]
fn add_primitive_binary_fix() {
    let a: isize = kani::any();
    let b: isize = kani::any();
    assert!(is_int(&add_primitive(&[IntV(a), IntV(b)]), a as i128 + b as i128));
    assert!(is_int(&add_primitive_no_check(&[IntV(a), IntV(b)]), a as i128 + b as i128));
}

#[kani::proof]
fn add_fix_big() {
    let a: isize = kani::any();
    let b = any_big();
    let bv = big_val(&b);
    assert!(is_int(&add_two(&IntV(a), &b), a as i128 + bv));
    assert!(is_int(&add_two(&b, &IntV(a)), a as i128 + bv));
    assert!(is_int(&negate(&b), -bv));
    assert!(is_int(&abs(&b), if bv < 0 { -bv } else { bv }));
}

#[kani::proof]
fn add_big_big() {
    let b = any_big();
    let c = any_big();
    assert!(is_int(&add_two(&b, &c), big_val(&b) + big_val(&c)));
}

#[kani::proof]
#[kani::unwind(3)]
fn divide_by_exact_zero_is_error() {
    let a: isize = kani::any();
    assert!(is_err_kind(&divide_primitive(&[IntV(a), IntV(0)]), ErrorKind::Generic));
    assert!(is_err_kind(&divide_primitive(&[IntV(0)]), ErrorKind::Generic));
}

/// (b)-half of a known finding: inexact division goes through the reciprocal (two roundings)
#[kani::proof]
#[kani::unwind(3)]
fn divide_inexact_is_ieee_quotient() {
    let x: f64 = kani::any();
    let y: f64 = kani::any();
    kani::assume(x.is_finite() && y.is_finite() && y != 0.0);
    assert!(is_num(&divide_primitive(&[NumV(x), NumV(y)]), x / y));
}

// ------------------------------------------------------------------ C20: host boundary conversions
macro_rules! from_int_harness {
    ($name:ident, $t:ty) => {
        /// FromSteelVal: a fixnum inside the target range converts exactly, outside it is an error
        /// ("reported as errors rather than truncated"); non-integers are errors.
        #[kani::proof]
        fn $name() {
            let v: isize = kani::any();
            let r = <$t as FromSteelVal>::from_steelval(&IntV(v));
            let inside = (v as i128) >= (<$t>::MIN as i128) && (v as i128) <= (<$t>::MAX as i128);
            match r {
                Ok(x) => assert!(inside && (x as i128) == (v as i128), "out-of-range integer was truncated instead of reported"),
                Err(e) => assert!(!inside && e.kind == ErrorKind::ConversionError),
            }
            assert!(<$t as FromSteelVal>::from_steelval(&Void).is_err());
            assert!(<$t as FromSteelVal>::from_steelval(&BoolV(true)).is_err());
            assert!(<$t as FromSteelVal>::from_steelval(&NumV(1.0)).is_err());
        }
    };
}
from_int_harness!(from_steelval_u8, u8);
from_int_harness!(from_steelval_i8, i8);
from_int_harness!(from_steelval_i16, i16);
from_int_harness!(from_steelval_u16, u16);
from_int_harness!(from_steelval_i32, i32);
from_int_harness!(from_steelval_u32, u32);
from_int_harness!(from_steelval_i64, i64);
from_int_harness!(from_steelval_u64, u64);
from_int_harness!(from_steelval_usize, usize);
from_int_harness!(from_steelval_isize, isize);

macro_rules! into_int_harness {
    ($name:ident, $t:ty) => {
        /// IntoSteelVal / From<T>: the script sees the same number (fixnum if it fits, bignum otherwise)
        #[kani::proof]
        fn $name() {
            let v: $t = kani::any();
            assert!(is_int(&v.into_steelval(), v as i128));
            assert!(int_of(&SteelVal::from(v)) == Some(v as i128));
        }
    };
}
into_int_harness!(into_steelval_u8, u8);
into_int_harness!(into_steelval_i8, i8);
into_int_harness!(into_steelval_i16, i16);
into_int_harness!(into_steelval_u16, u16);
into_int_harness!(into_steelval_i32, i32);
into_int_harness!(into_steelval_u32, u32);
into_int_harness!(into_steelval_i64, i64);
into_int_harness!(into_steelval_u64, u64);
into_int_harness!(into_steelval_usize, usize);
into_int_harness!(into_steelval_isize, isize);

#[kani::proof]
fn into_steelval_u128() {
    let v: u128 = kani::any();
    kani::assume(v < (1u128 << 100));
    assert!(is_int(&v.into_steelval(), v as i128));
    assert!(int_of(&SteelVal::from(v)) == Some(v as i128));
}

macro_rules! roundtrip_int_harness {
    ($name:ident, $t:ty) => {
        #[kani::proof]
        fn $name() {
            let v: $t = kani::any();
            kani::assume((v as i128) <= IMAX);
            let s = v.into_steelval().unwrap();
            assert!(<$t as FromSteelVal>::from_steelval(&s) == Ok(v));
        }
    };
}
roundtrip_int_harness!(roundtrip_u8, u8);
roundtrip_int_harness!(roundtrip_i16, i16);
roundtrip_int_harness!(roundtrip_i32, i32);
roundtrip_int_harness!(roundtrip_u32, u32);
roundtrip_int_harness!(roundtrip_i64, i64);
roundtrip_int_harness!(roundtrip_u64, u64);
roundtrip_int_harness!(roundtrip_isize, isize);

#[kani::proof]
fn big_to_small_int_conversions() {
    // bignum arms of the hand-written impls
    let b = any_big();
    assert!(<u8 as FromSteelVal>::from_steelval(&b).is_err());
    assert!(<i8 as FromSteelVal>::from_steelval(&b).is_err());
    assert!(<i64 as FromSteelVal>::from_steelval(&b).is_err());
}

#[kani::proof]
fn float_char_bool_unit_conversions() {
    let f: f64 = kani::any();
    match <f64 as FromSteelVal>::from_steelval(&f.into_steelval().unwrap()) {
        Ok(g) => assert!(same_f64(f, g)),
        Err(_) => assert!(false),
    }
    assert!(matches!(SteelVal::from(f), NumV(g) if same_f64(f, g)));
    let h: f32 = kani::any();
    match <f32 as FromSteelVal>::from_steelval(&h.into_steelval().unwrap()) {
        Ok(g) => assert!(same_f64(h as f64, g as f64)),
        Err(_) => assert!(false),
    }
    assert!(<f64 as FromSteelVal>::from_steelval(&IntV(1)).is_err());
    assert!(<f64 as FromSteelVal>::from_steelval(&Void).is_err());
    let c: char = kani::any();
    assert!(<char as FromSteelVal>::from_steelval(&c.into_steelval().unwrap()) == Ok(c));
    assert!(matches!(SteelVal::from(c), CharV(d) if d == c));
    assert!(<char as FromSteelVal>::from_steelval(&IntV(65)).is_err());
    let b: bool = kani::any();
    assert!(<bool as FromSteelVal>::from_steelval(&b.into_steelval().unwrap()) == Ok(b));
    assert!(<() as FromSteelVal>::from_steelval(&().into_steelval().unwrap()) == Ok(()));
    assert!(matches!(<() as FromSteelVal>::from_steelval(&IntV(0)), Err(e) if e.kind == ErrorKind::ConversionError));
    // Option: Some(x) travels as x, None as #false (documented deviation: Some(false) is not distinguishable)
    let i: i32 = kani::any();
    assert!(<Option<i32> as FromSteelVal>::from_steelval(&Some(i).into_steelval().unwrap()) == Ok(Some(i)));
    assert!(<Option<i32> as FromSteelVal>::from_steelval(&None::<i32>.into_steelval().unwrap()) == Ok(None));
}
