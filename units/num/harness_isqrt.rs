// Contract harnesses for exact-integer-sqrt (primitives/numbers.rs); child of x_isqrt
#![allow(unused_imports, static_mut_refs)]
use super::*;
use crate::harness_common::*;
use crate::prelude::isqrt_dep::{SQRT_CALLS, SQRT_RESULT};
use crate::prelude::ErrorKind;
use crate::prelude::SteelVal::{BigNum, IntV, NumV};

fn check(x: i128, r: &Result<SteelVal>) {
    let s = unsafe { SQRT_RESULT };
    assert!(unsafe { SQRT_CALLS } == 1);
    match two_list(r) {
        Some((a, b)) => {
            assert!(int_of(&a) == Some(s), "exact-integer-sqrt: the root is not the integer square root");
            assert!(int_of(&b) == Some(x - s * s), "exact-integer-sqrt: the remainder is not x - s*s");
        }
        None => assert!(false, "exact-integer-sqrt of a non-negative integer must be a list of two integers"),
    }
}

#[kani::proof]
#[kani::unwind(4)]
fn exact_integer_sqrt_rejects_negative() {
    let x: isize = kani::any();
    kani::assume(x < 0);
    unsafe { SQRT_CALLS = 0 };
    assert!(is_err_kind(&exact_integer_sqrt(&IntV(x)), ErrorKind::TypeMismatch));
    let f: f64 = kani::any();
    assert!(is_err_kind(&exact_integer_sqrt(&NumV(f)), ErrorKind::TypeMismatch));
    assert!(unsafe { SQRT_CALLS } == 0);
}
