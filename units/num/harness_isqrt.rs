// Contract harnesses for exact-integer-sqrt (primitives/numbers.rs); child of x_isqrt
#![allow(unused_imports, static_mut_refs)]
use super::*;
use crate::harness_common::*;
use crate::prelude::isqrt_dep::{EXPECTED_S, EXPECTED_X, SQRT_CALLS, SQRT_RESULT};
use crate::prelude::ErrorKind;
use crate::prelude::SteelVal::{BigNum, IntV, ListV, NumV};

// BOUNDED: the root ranges over a table (small roots, 2^16, 2^26+1 - just above the 2^52 limit of exact
// floating-point roots -, 2^31-1, 2^31, the largest fixnum root), the remainder over EVERY value 0..=2s.
const ROOTS: [isize; 10] = [0, 1, 2, 3, 65536, 67108865, 94906266, 2147483647, 2147483648, 3037000499];

#[kani::proof]
#[kani::unwind(12)]
fn exact_integer_impl_contract() {
    let i: usize = kani::any();
    kani::assume(i < 10);
    let s = ROOTS[i];
    let d: isize = kani::any();
    kani::assume(d >= 0 && d <= 2 * s);
    let sq = s * s;
    kani::assume(d <= isize::MAX - sq);
    let x = sq + d;
    unsafe {
        SQRT_CALLS = 0;
        EXPECTED_X = x;
        EXPECTED_S = s;
    }
    let (a, b) = exact_integer_impl::<isize>(&x);
    assert!(unsafe { SQRT_CALLS } == 1);
    assert!(a == s, "exact-integer-sqrt: the root is not the integer square root");
    assert!(b == d, "exact-integer-sqrt: the remainder is not x - s*s");
}

/// the primitive itself takes root and remainder of a fixnum from that routine (no floating-point shortcut)
#[kani::proof]
#[kani::unwind(12)]
fn exact_integer_sqrt_delegates() {
    let i: usize = kani::any();
    kani::assume(i < 3);
    let (s, d) = [(4isize, 1isize), (67108865, 0), (3037000499, 7)][i];
    let x = s * s + d;
    unsafe {
        SQRT_CALLS = 0;
        EXPECTED_X = x;
        EXPECTED_S = s;
    }
    let r = exact_integer_sqrt(&IntV(x));
    assert!(unsafe { SQRT_CALLS } == 1, "the integer root is not taken from the exact integer routine");
    match &r {
        Ok(ListV(l)) => {
            assert!(l.0.len() == 2);
            assert!(matches!(&l.0[0], IntV(a) if *a == s), "exact-integer-sqrt: wrong root");
            assert!(matches!(&l.0[1], IntV(b) if *b == d), "exact-integer-sqrt: wrong remainder");
        }
        _ => assert!(false, "exact-integer-sqrt of a non-negative fixnum must be a list of two fixnums"),
    }
}

#[kani::proof]
#[kani::unwind(4)]
fn exact_integer_sqrt_rejects_negative() {
    let x: isize = kani::any();
    kani::assume(x < 0);
    unsafe { SQRT_CALLS = 0 };
    assert!(is_err_kind(&exact_integer_sqrt(&IntV(x)), ErrorKind::TypeMismatch));
    let f: f64 = kani::any();
    assert!(is_err_kind(&exact_integer_sqrt(&NumV(f)), ErrorKind::TypeMismatch));
    assert!(unsafe { SQRT_CALLS } == 0);
}
