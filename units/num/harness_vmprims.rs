// Contract harnesses for the variadic ordering predicates (steel_vm/primitives.rs); child of x_vmprims
#![allow(unused_imports)]
use super::*;
use crate::harness_common::*;
use crate::prelude::SteelVal::{BoolV, IntV, NumV, Void};

fn is_bool(v: &Result<SteelVal>, b: bool) -> bool {
    matches!(v, Ok(BoolV(x)) if *x == b)
}

#[kani::proof]
#[kani::unwind(5)]
fn ord_variadic_compares_adjacent_pairs() {
    let (a, b, c): (isize, isize, isize) = (kani::any(), kani::any(), kani::any());
    let args = [IntV(a), IntV(b), IntV(c)];
    assert!(is_bool(&less_than(&args), a < b && b < c));
    assert!(is_bool(&less_than_equal(&args), a <= b && b <= c));
    assert!(is_bool(&greater_than(&args), a > b && b > c));
    assert!(is_bool(&greater_than_equal(&args), a >= b && b >= c));
    // two operands, one operand, none
    assert!(is_bool(&less_than(&args[..2]), a < b));
    assert!(is_bool(&greater_than_equal(&args[..2]), a >= b));
    assert!(is_bool(&less_than(&args[..1]), true));
    assert!(is_err_kind(&less_than(&args[..0]), ErrorKind::ArityMismatch));
    // a non-real operand is an error value when it is reached
    let bad = [IntV(a), Void, IntV(c)];
    assert!(is_err_kind(&less_than(&bad), ErrorKind::TypeMismatch));
    assert!(is_err_kind(&greater_than(&[Void]), ErrorKind::TypeMismatch));
}
