// shared spec helpers for the `num` harnesses (compiled only under cfg(kani))
#![allow(unused_imports, dead_code)]
use crate::prelude::{BigInt, ErrorKind, Gc, Result, SteelVal};
use crate::prelude::SteelVal::{BigNum, BoolV, CharV, IntV, ListV, NumV, Void};

pub(crate) const IMAX: i128 = isize::MAX as i128;
pub(crate) const IMIN: i128 = isize::MIN as i128;
/// bignum operands are explored within +-2^100 (the i128 model is exact there)
pub(crate) const BIG: i128 = 1i128 << 100;

pub(crate) fn fits(v: i128) -> bool {
    v >= IMIN && v <= IMAX
}

/// canonical exact integer: fixnum iff it fits, bignum otherwise ("integers never wrap")
pub(crate) fn int_of(v: &SteelVal) -> Option<i128> {
    match v {
        IntV(i) => Some(*i as i128),
        BigNum(b) => {
            if fits(b.0) {
                None // non-canonical: a bignum that fits a fixnum
            } else {
                Some(b.0)
            }
        }
        _ => None,
    }
}

pub(crate) fn is_int(v: &Result<SteelVal>, expect: i128) -> bool {
    match v {
        Ok(x) => int_of(x) == Some(expect),
        Err(_) => false,
    }
}

pub(crate) fn is_err_kind(v: &Result<SteelVal>, k: ErrorKind) -> bool {
    match v {
        Err(e) => e.kind == k,
        Ok(_) => false,
    }
}

pub(crate) fn any_big() -> SteelVal {
    let v: i128 = kani::any();
    kani::assume(!fits(v) && v > -BIG && v < BIG);
    BigNum(Gc::new(BigInt(v)))
}

pub(crate) fn big_val(v: &SteelVal) -> i128 {
    match v {
        BigNum(b) => b.0,
        IntV(i) => *i as i128,
        _ => 0,
    }
}

pub(crate) fn same_f64(a: f64, b: f64) -> bool {
    a.to_bits() == b.to_bits() || (a.is_nan() && b.is_nan())
}

pub(crate) fn is_num(v: &Result<SteelVal>, expect: f64) -> bool {
    match v {
        Ok(NumV(x)) => same_f64(*x, expect),
        _ => false,
    }
}

pub(crate) fn two_list(v: &Result<SteelVal>) -> Option<(SteelVal, SteelVal)> {
    match v {
        Ok(ListV(l)) if l.0.len() == 2 => Some((l.0[0].clone(), l.0[1].clone())),
        _ => None,
    }
}

