// Contract harnesses for items extracted from rvals.rs (child module of x_rvals; unit `num`, E2).
#![allow(unused_imports, dead_code)]
use super::*;
use crate::harness_common::*;
use core::cmp::Ordering;
use num_rational::Rational32;

// ------------------------------------------------------------------ mixed exact / inexact
/// exact value of an integral double as i128 (None if not finite / not integral / too large)
fn exact_int_of_f64(f: f64) -> Option<i128> {
    if !f.is_finite() || f.abs() >= 1.0e30 {
        return None;
    }
    let t = f as i128;
    if t as f64 == f {
        Some(t)
    } else {
        None
    }
}

#[kani::proof]
fn int_float_equality_is_exact() {
    let i: isize = kani::any();
    let f: f64 = kani::any();
    kani::assume(!(f.abs() >= 1.0e30) || !f.is_finite());
    let want = exact_int_of_f64(f) == Some(i as i128);
    let got = number_equality(&IntV(i), &NumV(f));
    assert!(got == Ok(BoolV(want)));
    let got2 = number_equality(&NumV(f), &IntV(i));
    assert!(got2 == Ok(BoolV(want)));
}

/// exact comparison of a fixnum with a double
fn cmp_int_f64(i: isize, f: f64) -> Option<Ordering> {
    if f.is_nan() {
        return None;
    }
    if f >= 9.3e18 {
        return Some(Ordering::Less);
    }
    if f <= -9.3e18 {
        return Some(Ordering::Greater);
    }
    // |f| < 2^63.01: floor(f) fits i128 exactly
    let fl = f.floor();
    let t = fl as i128;
    let i = i as i128;
    if i < t {
        Some(Ordering::Less)
    } else if i > t {
        Some(Ordering::Greater)
    } else if fl == f {
        Some(Ordering::Equal)
    } else {
        Some(Ordering::Less)
    }
}

const TWO53: isize = 1 << 53;

#[kani::proof]
fn int_float_ordering_exact_small() {
    let i: isize = kani::any();
    let f: f64 = kani::any();
    kani::assume(i >= -TWO53 && i <= TWO53);
    assert!(IntV(i).partial_cmp(&NumV(f)) == cmp_int_f64(i, f));
    assert!(NumV(f).partial_cmp(&IntV(i)) == cmp_int_f64(i, f).map(|o| o.reverse()));
}

/// (b)-half of known finding: fixnums beyond 2^53 are rounded before the comparison
#[kani::proof]
fn int_float_ordering_exact_large() {
    let i: isize = kani::any();
    let f: f64 = kani::any();
    kani::assume(i < -TWO53 || i > TWO53);
    assert!(IntV(i).partial_cmp(&NumV(f)) == cmp_int_f64(i, f));
    assert!(NumV(f).partial_cmp(&IntV(i)) == cmp_int_f64(i, f).map(|o| o.reverse()));
}

#[kani::proof]
fn exact_ordering_fix_big() {
    let i: isize = kani::any();
    let j: isize = kani::any();
    let b = any_big();
    let bv = big_val(&b);
    assert!(IntV(i).partial_cmp(&IntV(j)) == Some(i.cmp(&j)));
    assert!(IntV(i).partial_cmp(&b) == Some((i as i128).cmp(&bv)));
    assert!(b.partial_cmp(&IntV(i)) == Some(bv.cmp(&(i as i128))));
    let c = any_big();
    assert!(b.partial_cmp(&c) == Some(bv.cmp(&big_val(&c))));
    assert!(number_equality(&IntV(i), &IntV(j)) == Ok(BoolV(i == j)));
    assert!(number_equality(&b, &c) == Ok(BoolV(bv == big_val(&c))));
    // canonical forms: a fixnum never equals a (canonical) bignum
    assert!(number_equality(&IntV(i), &b) == Ok(BoolV(false)));
}

/// BOUNDED: num_rational's Ord for Ratio divides (see the division note in harness_numbers.rs)
#[kani::proof]
#[kani::unwind(8)]
fn ordering_fix_rational_table() {
    const IS: [isize; 7] = [isize::MIN, -4294967297, -1, 0, 3, 4294967296, isize::MAX];
    const QS: [(i32, i32); 6] = [(1, 2), (-1, 2), (7, 2), (i32::MAX, 2), (i32::MIN + 1, 3), (-7, 3)];
    for i in IS {
        for (n, d) in QS {
            let q = Rational(Rational32::new_raw(n, d));
            let want = (i as i128 * d as i128).cmp(&(n as i128));
            assert!(IntV(i).partial_cmp(&q) == Some(want));
            assert!(q.partial_cmp(&IntV(i)) == Some(want.reverse()));
        }
    }
}

/// writer side (C12): `a+bi` is only valid syntax when b is finite and non-negative; NaN and the
/// infinities carry their own sign, so they must NOT be reported as finite
#[kani::proof]
fn complex_imaginary_sign_classification() {
    let f: f64 = kani::any();
    let c = SteelComplex::new(SteelVal::IntV(1), SteelVal::NumV(f));
    assert!(c.imaginary_is_finite() == f.is_finite(), "a NaN / infinite imaginary part was classified as finite");
    assert!(c.imaginary_is_negative() == f.is_sign_negative());
    let i: isize = kani::any();
    let d = SteelComplex::new(SteelVal::IntV(1), SteelVal::IntV(i));
    assert!(d.imaginary_is_finite() && d.imaginary_is_negative() == (i < 0));
}
