#!/usr/bin/env python3
"""Generates MANIFEST.json from vlib/manifest_data.py (kept in one place so it stays valid)."""
import json, os, sys
sys.path.insert(0, os.path.dirname(os.path.abspath(__file__)))
from vlib import manifest_data as M
json.dump(M.manifest(), open(os.path.join(os.path.dirname(os.path.abspath(__file__)), "MANIFEST.json"), "w"), indent=1)
print("MANIFEST.json written:", len(M.manifest()["checks"]), "checks,", len(M.manifest()["not_applicable"]), "not applicable")
